import Toxi.Model.Toxic
/-
A single `ToxicStub` running one toxic, together with its environment: the input channel
(buffer + blocked senders), a sink that is either ready or not, the clock, the pending
timer, and a caller of `InterruptToxic`.  This is what engine E2 drives in lock-step with
the real `toxics.*.Pipe` under testing/synctest's virtual clock.

`settle` runs the internal moves until nothing is enabled — synctest's "all goroutines
durably blocked"; `advance` moves the clock, firing the pending timer at its deadline
(synctest timers are punctual).
-/
namespace Toxi.Toxic

/-- Exact rational (float32 values are sent as exact fractions). -/
structure Frac where
  num : Int
  den : Int
deriving Repr, DecidableEq, Inhabited

def Frac.lt (a b : Frac) : Bool := a.num * b.den < b.num * a.den

inductive IntrSt where
  | none                 -- no InterruptToxic call in progress
  | pending              -- blocked in `select { <-closed | Interrupt <- }`
  | waitRet              -- interrupt delivered, blocked in `<-s.running`
  | done (ok : Bool)     -- returned
deriving Repr, DecidableEq

structure Emission where
  time : Int
  c  : Chunk
deriving Repr, DecidableEq

structure Env where
  v        : Variant := .fixed
  cfg      : Cfg := .noop
  tox      : Frac := ⟨1, 1⟩
  active   : Bool := true
  st       : StubSt := {}
  pc       : Pc := .ret
  now      : Int := 0
  inq      : List Chunk := []
  incap    : Nat := 0
  src      : List Chunk := []
  inClosed : Bool := false
  sinkReady : Bool := false
  log      : List Emission := []    -- newest first
  accepted : Nat := 0
  intr     : IntrSt := .none
  draws    : List Int := []
  race     : Bool := false          -- a Go `select` had two ready cases: outcome not determined
deriving Repr

/-- Number of draws an input event consumes (so the preloaded list stays in step with the
implementation's calls of `rand`). -/
def drawsUsed (v : Variant) (cfg : Cfg) (active : Bool) (c : Chunk) (draws : List Int) : Nat :=
  if !active then 0 else
  match cfg with
  | .latency _ j =>
    let guardOK := match v with | .legacy => true | .fixed => decide (j ≤ Int.tdiv maxInt64 2)
    if j > 0 ∧ guardOK = true ∧ wrap64 (j * 2) > 0 then 1 else 0
  | .slicer avg var _ =>
    match slicerChunk (v == .fixed) avg var (slicerFuel c.data.length) 0 c.data.length draws with
    | .ok _ rest => draws.length - rest.length
    | _ => 0
  | _ => 0

def Env.inputAvail (e : Env) : Bool :=
  !e.inq.isEmpty || !e.src.isEmpty || e.inClosed

def Env.fire (e : Env) (ev : Event) : Env :=
  match step e.v e.cfg e.active e.st e.pc ev with
  | some (st, pc) => { e with st := st, pc := pc }
  | none => { e with pc := .crash "model: event not receivable here" }

/-- One internal move, or `none` when the system is quiescent. -/
def Env.move (e : Env) : Option Env :=
  match e.pc with
  | .crash _ => none
  | _ =>
  -- a due timer fires
  let due : Bool := match e.pc.timer with | some d => decide (d ≤ e.now) | none => false
  if due then
    let race := e.race || (e.intr == .pending && e.pc.interruptible) ||
      (e.pc.wantsInput && e.inputAvail)
    some ({ e with race := race }.fire (.timer e.now))
  else if e.intr == .pending && e.st.closed then
    some { e with intr := .done false }
  else if e.intr == .pending && e.pc.interruptible then
    let race := e.race || (e.pc.wantsInput && e.inputAvail)
    let e' := { e with race := race }.fire (.interrupt e.now)
    some { e' with intr := .waitRet }
  else if e.intr == .waitRet && !e.pc.running then
    some { e with intr := .done true }
  else if e.pc.wantsInput && e.inputAvail then
    match e.inq, e.src with
    | c :: q, _ =>
      let n := drawsUsed e.v e.cfg e.active c e.draws
      some ({ e with inq := q, draws := e.draws.drop n }.fire (.input (some c) e.now e.draws))
    | [], c :: s =>
      let n := drawsUsed e.v e.cfg e.active c e.draws
      some ({ e with src := s, accepted := e.accepted + 1, draws := e.draws.drop n }.fire
        (.input (some c) e.now e.draws))
    | [], [] => some (e.fire (.input none e.now e.draws))
  else if e.sinkReady && e.pc.offer.isSome then
    match e.pc.offer with
    | some c => some ({ e with log := ⟨e.now, c⟩ :: e.log }.fire (.taken e.now))
    | none => none
  else if !e.src.isEmpty && e.inq.length < e.incap then
    match e.src with
    | c :: s => some { e with src := s, inq := e.inq ++ [c], accepted := e.accepted + 1 }
    | [] => none
  else if e.st.closed && !e.pc.running && e.v == .fixed then
    -- `ToxicStub.Close` leaves a goroutine draining the input: what arrives is dropped
    match e.inq, e.src with
    | _ :: q, _ => some { e with inq := q }
    | [], _ :: s => some { e with src := s, accepted := e.accepted + 1 }
    | [], [] => none
  else none

def Env.settle : Nat → Env → Env
  | 0, e => { e with pc := .crash "model: settle fuel exhausted" }
  | n + 1, e => match e.move with
    | some e' => Env.settle n e'
    | none => e

def settleFuel : Nat := 200000

/-- Advance the clock by `d`, firing the stage's timer whenever its deadline is reached. -/
def Env.advance : Nat → Env → Int → Env
  | 0, e, _ => { e with pc := .crash "model: advance fuel exhausted" }
  | n + 1, e, target =>
    let e := e.settle settleFuel
    match e.pc.timer with
    | some d =>
      if d ≤ target then
        Env.advance n { e with now := max e.now d } target
      else { e with now := max e.now target }
    | none => { e with now := max e.now target }

end Toxi.Toxic
