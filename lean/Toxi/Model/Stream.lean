/-
Model of `stream/io_chan.go`: `ChanWriter` / `ChanReader`.

Core Lean only (this file is linked into the driver executable).

The Go reader is

    func (c *ChanReader) Read(out []byte) (int, error) {
      if c.buffer == nil { return 0, io.EOF }
      n := copy(out, c.buffer); c.buffer = c.buffer[n:]
      if <out is full>        { return n, nil }            -- (A)
      else if n > 0 { select { case p := <-c.input: … default: return n, nil } }   -- (B) optional refill
      select { case p = <-c.input: case <-c.interrupt: … } -- (C) blocking receive
      …
    }

`read` follows it branch for branch.  What the two `select`s find on the channel is an
explicit argument (`Avail`), so the theorems quantify over every availability pattern.
-/
namespace Toxi.Stream

abbrev Bytes := List UInt8

/-- Reader state: `c.buffer`; `none` is Go's `nil` (end of stream has been seen). -/
structure RState where
  buf : Option Bytes
deriving Repr, DecidableEq, Inhabited

def RState.init : RState := ⟨some []⟩

/-- What a `select` on the input channel / interrupt channel finds. -/
inductive Avail where
  | chunk (d : Bytes)   -- a chunk is ready on the channel
  | closed              -- the channel is closed and drained (receive yields nil)
  | empty               -- nothing ready (only meaningful for the optional refill: `default`)
  | intr                -- nothing on the input, the interrupt channel is ready
deriving Repr, DecidableEq

inductive RErr where
  | ok | eof | interrupted
  | blocked             -- the call would block (blocking receive with nothing ready)
deriving Repr, DecidableEq

structure ReadResult where
  st   : RState
  out  : Bytes
  err  : RErr
  took : Bool           -- the head of the channel (chunk or close marker) was consumed
deriving Repr, DecidableEq

/-- Which condition guards the early return (A).  The pinned tree originally had
`len(out) <= len(c.buffer)` (`legacy`), which lets the optional refill (B) overwrite a
non-empty remainder; the repaired tree has `n == len(out)` (`fixed`). -/
inductive Variant where
  | legacy | fixed
deriving Repr, DecidableEq

def earlyReturn (v : Variant) (m : Nat) (taken rest : Bytes) : Bool :=
  match v with
  | .legacy => m ≤ rest.length
  | .fixed  => taken.length == m

/-- `ChanReader.Read` with a caller buffer of length `m`. -/
def readV (v : Variant) (s : RState) (m : Nat) (a : Avail) : ReadResult :=
  match s.buf with
  | none => ⟨s, [], .eof, false⟩
  | some b =>
    let o := b.take m
    let r := b.drop m
    if earlyReturn v m o r then ⟨⟨some r⟩, o, .ok, false⟩
    else if 0 < o.length then
      -- (B): we have some data, the receive is optional
      match a with
      | .chunk d => ⟨⟨some (d.drop (m - o.length))⟩, o ++ d.take (m - o.length), .ok, true⟩
      | .closed  => ⟨⟨none⟩, o, .ok, true⟩
      | _        => ⟨⟨some r⟩, o, .ok, false⟩
    else
      -- (C): blocking receive; here n = 0, i.e. `o = []`
      match a with
      | .chunk d => ⟨⟨some (d.drop m)⟩, d.take m, .ok, true⟩
      | .closed  => ⟨⟨none⟩, [], .eof, true⟩
      | .intr    => ⟨⟨some []⟩, [], .interrupted, false⟩
      | .empty   => ⟨s, [], .blocked, false⟩

/-- The reader of the current tree. -/
abbrev read := readV .fixed

/-! ## The pipe: writer + channel + reader -/

/-- `queue`: chunks sitting in the channel (oldest first); `wclosed`: `ChanWriter.Close`
was called.  The channel is modelled with unbounded capacity: every execution over a
channel of capacity `k` (including the rendezvous channel, `k = 0`) is an execution of
this model with the same order of chunks, capacity only restricts *when* `write` is
enabled. -/
structure Pipe where
  queue   : List Bytes
  wclosed : Bool
  r       : RState
deriving Repr, DecidableEq

def Pipe.init : Pipe := ⟨[], false, RState.init⟩

/-- Operations on the pipe.  `read m refill intr`: a `Read` with a buffer of `m` bytes;
`refill` says whether the optional receive (B) sees what is at the head of the channel
(`true`) or takes its `default` branch although something may be queued (`false`: the
chunk "became available" only after the `select`); `intr`: the interrupt channel is ready
when the blocking receive (C) finds the channel empty. -/
inductive Op where
  | write (d : Bytes)
  | close
  | read (m : Nat) (refill : Bool) (intr : Bool)
deriving Repr, DecidableEq

/-- What the head of the channel is. -/
def Pipe.head (p : Pipe) : Avail :=
  match p.queue with
  | d :: _ => .chunk d
  | []     => if p.wclosed then .closed else .empty

/-- What a `select` finds.  On the blocking receive (C) both the input and the interrupt
may be ready and Go picks either: `intr = true` is "the interrupt case is taken"
(whatever is queued), `intr = false` is "the input case is taken if anything is there".
The optional receive (B) has no interrupt case; `see = false` is its `default` branch. -/
def Pipe.avail (p : Pipe) (blocking see intr : Bool) : Avail :=
  if blocking then (if intr then .intr else p.head)
  else (if see then p.head else .empty)

structure StepOut where
  out : Bytes := []
  err : RErr := .ok
deriving Repr, DecidableEq

/-- Whether the read reaches the blocking receive (C), where the `refill` flag is
irrelevant: a blocking receive always sees what is queued. -/
def Pipe.blockingPath (v : Variant) (p : Pipe) (m : Nat) : Bool :=
  match p.r.buf with
  | none => false
  | some b => !(earlyReturn v m (b.take m) (b.drop m)) && (b.take m).length == 0

def Pipe.stepV (v : Variant) (p : Pipe) : Op → Pipe × StepOut
  | .write d => ({ p with queue := p.queue ++ [d] }, {})
  | .close   => ({ p with wclosed := true }, {})
  | .read m refill intr =>
    let res := readV v p.r m (p.avail (p.blockingPath v m) refill intr)
    let q := if res.took then p.queue.drop 1 else p.queue
    ({ p with queue := q, r := res.st }, ⟨res.out, res.err⟩)

abbrev Pipe.step := Pipe.stepV .fixed

/-- Run a list of operations, collecting everything the reads returned. -/
def Pipe.runV (v : Variant) : Pipe → List Op → Pipe × Bytes
  | p, [] => (p, [])
  | p, op :: ops =>
    let (p', o) := p.stepV v op
    let (p'', rest) := Pipe.runV v p' ops
    (p'', o.out ++ rest)

abbrev Pipe.run := Pipe.runV .fixed

/-- All bytes written so far (ghost, computed from the op list). -/
def written : List Op → Bytes
  | [] => []
  | .write d :: ops => d ++ written ops
  | _ :: ops => written ops

/-- Bytes still inside the pipe: reader remainder, then queued chunks. -/
def Pipe.inflight (p : Pipe) : Bytes :=
  (p.r.buf.getD []) ++ p.queue.flatten

end Toxi.Stream
