import Toxi.Model.Stream
/-
Model of `toxics/*.go`: the eight `Pipe` functions as coroutines, and `ToxicStub.Run`.

Core Lean only.  One `Pc` constructor per *kind of blocking point* of the Go sources:

  idle      `select { <-stub.Interrupt | c := <-stub.Input }`          every toxic's main loop
  idleT     the same plus `<-time.After(timeout)`                      timeout toxic, T > 0
  out       `stub.Output <- c`           (not interruptible)           every forwarding toxic
  nap       `select { <-time.After(d) | <-stub.Interrupt }`            latency, bandwidth, slicer, slow_close
  hold      `<-time.After(d)`            (not interruptible)           reset_peer
  flush     `select { stub.Output <- p | <-time.After(5s) }`           bandwidth after an interrupt (WriteOutput)
  ret       Pipe has returned
  crash     a Go panic / fatal error (the process dies)

All times are nanoseconds (`Int`).  Clock readings, timer firings and random draws are
inputs (they arrive with the event), never effects.
-/
namespace Toxi.Toxic
open Toxi.Stream (Bytes)

structure Chunk where
  data : Bytes
  ts   : Int
deriving Repr, DecidableEq, Inhabited

/-- Go's int64 wrap-around (two's complement), used only where the properties are about
extreme attribute values. -/
def wrap64 (x : Int) : Int :=
  let m : Int := 18446744073709551616
  let h : Int := 9223372036854775808
  ((x + h) % m) - h

def ms : Int := 1000000
def us : Int := 1000

/-- Toxic configuration: the attribute structs of `toxics/*.go`. -/
inductive Cfg where
  | noop
  | latency (latency jitter : Int)
  | bandwidth (rate : Int)
  | slicer (avg var delay : Int)
  | slowClose (delay : Int)
  | timeout (timeout : Int)
  | limitData (bytes : Int)
  | resetPeer (timeout : Int)
deriving Repr, DecidableEq, Inhabited

/-- Which variant of the two toxics repaired by `fix:` commits is modelled (the current
tree is `.fixed`; `.legacy` keeps the original behaviour for the regression witnesses). -/
inductive Variant where
  | legacy | fixed
deriving Repr, DecidableEq

/-- Per-stub state that survives restarts of `Pipe` (`stub.State`, `stub.closed`). -/
structure StubSt where
  transmitted : Int := 0     -- LimitDataToxicState.bytesTransmitted
  closed      : Bool := false
deriving Repr, DecidableEq, Inhabited

/-- What happens after a blocked `Output <- c` completes. -/
inductive Next where
  | toIdle (carry : Int)                         -- back to the main loop (carry: bandwidth's `sleep`)
  | toRet                                        -- return (flush after an interrupt)
  | slicerGap (rest : Bytes) (offs : List (Int × Int)) (base : Int) (ts : Int)
  | bwLoop (p : Chunk) (carry : Int)             -- bandwidth: re-test `len(p.Data) > Rate*100`
  | limitAfter (n : Int)                         -- limit_data: account n bytes, maybe close
deriving Repr, DecidableEq

/-- What a `select { timer | Interrupt }` is waiting for. -/
inductive Wake where
  | latency (c : Chunk) (sleep delay : Int)
  | bwInstal (p : Chunk) (carry : Int)
  | bwFinal (p : Chunk) (carry start : Int)
  | slicerGap (rest : Bytes) (offs : List (Int × Int)) (base : Int) (ts : Int)
  | slowClose
deriving Repr, DecidableEq

inductive Pc where
  | idle (carry : Int)
  | idleT (deadline : Int)
  | out (c : Chunk) (k : Next)
  | nap (deadline : Int) (w : Wake)
  | hold (deadline : Int)
  | flush (c : Chunk) (deadline : Int)
  | ret
  | crash (why : String)
deriving Repr, DecidableEq

inductive Event where
  | input (c : Option Chunk) (now : Int) (draws : List Int)  -- received from Input (`none`: closed)
  | interrupt (now : Int)
  | timer (now : Int)        -- the pending timer fired; `now` is the clock when the goroutine runs
  | taken (now : Int)        -- the pending `Output <- c` completed
deriving Repr, DecidableEq

/-! ### slicer: `chunk(start, end)` -/

/-- `SlicerToxic.chunk` with explicit fuel; `none` = fuel exhausted (in Go: unbounded
recursion, the process dies of stack overflow).  `draws` are the successive results of
`rand.Intn(SizeVariation*2)` in call order; the unused ones are returned.  A draw request
with a non-positive bound is a Go panic: reported as `.error`. -/
inductive ChunkRes where
  | ok (offs : List (Int × Int)) (rest : List Int)
  | outOfFuel
  | panic (why : String)
deriving Repr, DecidableEq

def maxInt64 : Int := 9223372036854775807

/-- `g`: the guards of the repaired code (a range that cannot be split is returned as it is;
the random offset is only drawn when `2·variation` fits an int; the split point is kept
strictly inside the range).  `g = false` is the original recursion. -/
def slicerChunk (g : Bool) (avg var : Int) : Nat → Int → Int → List Int → ChunkRes
  | 0, _, _, _ => .outOfFuel
  | fuel + 1, s, e, draws =>
    -- `(end-start)-t.AverageSize` is int arithmetic: it wraps for an extremely negative
    -- average (sizes are below 2^62)
    let diff := if avg < -(4611686018427387904 : Int) then wrap64 ((e - s) - avg) else (e - s) - avg
    if (g && e - s < 2) || diff ≤ var then .ok [(s, e)] draws
    else
      let mid0 := s + Int.tdiv (e - s) 2   -- Go `/` truncates toward zero
      let stepMid : Option (Int × List Int) :=
        if var > 0 && (!g || var ≤ Int.tdiv maxInt64 2) then
          if wrap64 (var * 2) ≤ 0 then none
          else match draws with
            | d :: ds => some (mid0 + (d % wrap64 (var * 2)) - var, ds)
            | [] => some (mid0 - var, [])
        else some (mid0, draws)
      match stepMid with
      | none => .panic "rand.Intn: invalid argument"
      | some (mid1, ds) =>
        let mid := if g then (if mid1 ≤ s then s + 1 else if mid1 ≥ e then e - 1 else mid1) else mid1
        match slicerChunk g avg var fuel s mid ds with
        | .ok l ds' =>
          match slicerChunk g avg var fuel mid e ds' with
          | .ok r ds'' => .ok (l ++ r) ds''
          | x => x
        | x => x

/-- `c.Data[a:b]` (Go slice expression): panics unless `0 ≤ a ≤ b ≤ len`. -/
def slice (d : Bytes) (a b : Int) : Option Bytes :=
  if 0 ≤ a ∧ a ≤ b ∧ b ≤ d.length then some ((d.drop a.toNat).take (b - a).toNat) else none

/-- Fuel given to `slicerChunk` by the stage: enough for every terminating call
(`C12_terminates`), so `outOfFuel` means genuine divergence. -/
def slicerFuel (size : Nat) : Nat := 2 * size + 8

/-! ### the stage step -/

/-- Entering the slicer's send loop at piece list `offs` (first piece is sent).
`rest` is `c.Data[base:]`: the offsets returned by `chunk` always form a chain (each piece
starts where the previous one ended), so the next piece is `c.Data[a:b]` with `a = base`;
the slice expression panics unless `a ≤ b ≤ len(c.Data)`. -/
def slicerSend (rest : Bytes) (base : Int) (ts : Int) : List (Int × Int) → Pc
  | [] => .idle 0
  | (a, b) :: offs =>
    match slice rest (a - base) (b - base) with
    | some piece => .out ⟨piece, ts⟩ (.slicerGap (rest.drop (b - base).toNat) offs b ts)
    | none => .crash "slice bounds out of range (slicer)"

/-- bandwidth: the `for int64(len(p.Data)) > t.Rate*100` test and what follows. -/
def bwLoop (v : Variant) (rate : Int) (p : Chunk) (carry now : Int) : Pc :=
  -- repaired code: only a non-negative rate whose 100 ms budget fits an int64 splits (rate 0:
  -- empty instalments for ever — nothing passes, the stage stays interruptible)
  let guardOK := match v with | .legacy => true | .fixed => decide (rate ≥ 0) && decide (rate ≤ Int.tdiv maxInt64 100)
  if guardOK && decide ((p.data.length : Int) > wrap64 (rate * 100)) then .nap (now + 100 * ms) (.bwInstal p carry)
  else .nap (now + max carry 0) (.bwFinal p carry now)

/-- First program counter of `Pipe` (entered at clock `now`). -/
def start (cfg : Cfg) (active : Bool) (now : Int) : Pc :=
  if !active then .idle 0 else
  match cfg with
  | .timeout t => if wrap64 (t * ms) > 0 then .idleT (now + wrap64 (t * ms)) else .idle 0
  | _ => .idle 0

/-- Body of the main loop after a chunk `c` was received (active toxic). -/
def onChunk (v : Variant) (cfg : Cfg) (st : StubSt) (carry : Int) (c : Chunk) (now : Int)
    (draws : List Int) : StubSt × Pc :=
  match cfg with
  | .noop => (st, .out c (.toIdle 0))
  | .latency l j =>
    let guardOK := match v with | .legacy => true | .fixed => decide (j ≤ Int.tdiv maxInt64 2)
    let r : Option Int :=
      if j > 0 && guardOK then
        (if wrap64 (j * 2) ≤ 0 then none
         else match draws with
           | d :: _ => some (l + (d % wrap64 (j * 2)) - j)
           | [] => some (l - j))
      else some l
    match r with
    | none => (st, .crash "rand.Int63n: invalid argument")
    | some dm =>
      let delay := wrap64 (dm * ms)
      let sleep := delay - (now - c.ts)
      (st, .nap (now + max sleep 0) (.latency c sleep delay))
  | .bandwidth rate =>
    let carry' := if rate ≤ 0 then 0 else carry + Int.tdiv ((c.data.length : Int) * ms) rate
    (st, bwLoop v rate c carry' now)
  | .slicer avg var _ =>
    match slicerChunk (v == .fixed) avg var (slicerFuel c.data.length) 0 c.data.length draws with
    | .ok offs _ => (st, slicerSend c.data 0 c.ts offs)
    | .outOfFuel => (st, .crash "stack overflow (slicer chunk recursion does not terminate)")
    | .panic w => (st, .crash w)
  | .slowClose _ => (st, .out c (.toIdle 0))
  | .timeout t =>
    -- the data is dropped; legacy: a fresh timer is armed on every loop iteration
    if wrap64 (t * ms) > 0 then
      (st, .idleT (match v with | .legacy => now + wrap64 (t * ms) | .fixed => carry))
    else (st, .idle 0)
  | .limitData n =>
    let rem := max 0 (n - st.transmitted)
    let c' : Chunk := if rem < c.data.length then ⟨c.data.take rem.toNat, c.ts⟩ else c
    if c'.data.length > 0 then (st, .out c' (.limitAfter c'.data.length))
    else if n - st.transmitted ≤ 0 then ({ st with closed := true }, .ret)
    else (st, .idle 0)
  | .resetPeer t => (st, .hold (now + max (wrap64 (t * ms)) 0))

/-- One step of the coroutine: `none` when the event cannot be received at this `Pc`. -/
def step (v : Variant) (cfg : Cfg) (active : Bool) (st : StubSt) (pc : Pc) (ev : Event) :
    Option (StubSt × Pc) :=
  let cfg := if active then cfg else .noop
  match pc, ev with
  -- main loop
  | .idle _, .interrupt _ => some (st, .ret)
  | .idle carry, .input none now _ =>
    (match cfg with
     | .slowClose d => some (st, .nap (now + max (wrap64 (d * ms)) 0) .slowClose)
     | .resetPeer t => some (st, .hold (now + max (wrap64 (t * ms)) 0))
     | _ => let _ := carry; some ({ st with closed := true }, .ret))
  | .idle carry, .input (some c) now draws => some (onChunk v cfg st carry c now draws)
  -- timeout toxic's main loop
  | .idleT _, .interrupt _ => some (st, .ret)
  | .idleT _, .timer _ => some ({ st with closed := true }, .ret)
  | .idleT _, .input none _ _ => some ({ st with closed := true }, .ret)
  | .idleT dl, .input (some c) now draws => some (onChunk v cfg st dl c now draws)
  -- blocked send completed
  | .out _ k, .taken now =>
    (match k with
     | .toIdle carry => some (st, .idle carry)
     | .toRet => some (st, .ret)
     | .slicerGap rest offs base ts =>
       -- (a slicer gap only exists under a slicer; any other configuration is unreachable here
       -- and gets the delay 0, so that the step is total)
       let delay := match cfg with | .slicer _ _ d => d | _ => 0
       some (st, .nap (now + max (wrap64 (delay * us)) 0) (.slicerGap rest offs base ts))
     | .bwLoop p carry =>
       let rate := match cfg with | .bandwidth r => r | _ => -1
       some (st, bwLoop v rate p carry now)
     | .limitAfter n =>
       (match cfg with
        | .limitData lim =>
          let st' := { st with transmitted := st.transmitted + n }
          if lim - st'.transmitted ≤ 0 then some ({ st' with closed := true }, .ret)
          else some (st', .idle 0)
        | _ => some (st, .idle 0)))
  -- timed waits
  | .nap _ (.latency c sleep delay), .timer _ =>
    (match v with
     | .legacy => some (st, .out { c with ts := c.ts + sleep } (.toIdle 0))
     | .fixed  => some (st, .out { c with ts := c.ts + delay } (.toIdle 0)))
  | .nap _ (.latency c _ _), .interrupt _ => some (st, .out c .toRet)
  | .nap _ (.bwInstal p carry), .timer _ =>
    (match cfg with
     | .bandwidth rate =>
       let k := wrap64 (rate * 100)
       (match slice p.data 0 k, slice p.data k p.data.length with
        | some piece, some rest =>
          some (st, .out ⟨piece, p.ts⟩ (.bwLoop ⟨rest, p.ts⟩ (carry - 100 * ms)))
        | _, _ => some (st, .crash "slice bounds out of range (bandwidth)"))
     | _ => some (st, .out p (.toIdle carry)))     -- unreachable: an instalment wait only exists under bandwidth
  | .nap _ (.bwInstal p _), .interrupt now => some (st, .flush p (now + 5000 * ms))
  | .nap _ (.bwFinal p carry start), .timer now => some (st, .out p (.toIdle (carry - (now - start))))
  | .nap _ (.bwFinal p _ _), .interrupt now => some (st, .flush p (now + 5000 * ms))
  | .nap _ (.slicerGap rest offs base ts), .timer _ =>
    some (st, slicerSend rest base ts offs)
  | .nap _ (.slicerGap rest _ _ ts), .interrupt _ =>
    -- `c.Data[chunks[i]:]`: everything after the piece just sent, as one chunk
    some (st, .out ⟨rest, ts⟩ .toRet)
  | .nap _ .slowClose, .timer _ => some ({ st with closed := true }, .ret)
  | .nap _ .slowClose, .interrupt _ => some (st, .ret)
  -- reset_peer
  | .hold _, .timer _ => some ({ st with closed := true }, .ret)
  -- WriteOutput(p, 5s)
  | .flush _ _, .taken _ => some (st, .ret)
  | .flush _ _, .timer _ => some (st, .ret)        -- gave up: the chunk is dropped
  | _, _ => none

/-- The chunk currently offered on `Output`, if the stage is blocked in a send. -/
def Pc.offer : Pc → Option Chunk
  | .out c _ => some c
  | .flush c _ => some c
  | _ => none

/-- The deadline of the pending timer, if any. -/
def Pc.timer : Pc → Option Int
  | .idleT d => some d
  | .nap d _ => some d
  | .hold d => some d
  | .flush _ d => some d
  | _ => none

/-- Can the stage receive an interrupt here (is `stub.Interrupt` in the `select`)? -/
def Pc.interruptible : Pc → Bool
  | .idle _ | .idleT _ | .nap _ _ => true
  | _ => false

/-- Does the stage receive from `Input` here? -/
def Pc.wantsInput : Pc → Bool
  | .idle _ | .idleT _ => true
  | _ => false

def Pc.running : Pc → Bool
  | .ret | .crash _ => false
  | _ => true

end Toxi.Toxic
