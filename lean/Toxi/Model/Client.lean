import Toxi.Model.Api
/-
Model of the Go client library (`client/client.go`, `client/proxy.go`, `client/toxic.go`):
which HTTP requests each client operation issues (method, path, JSON body), how it treats
the answers, and — by running those requests through `Api.step` — what it does to the
server.  Core Lean only.  Engine E5 records the requests the real client (and the real
`toxiproxy-cli` binary) sends to a live server and compares them, the returned values and
the resulting server state with this model.
-/
namespace Toxi.Client
open Toxi.Api
open Toxi.Toxic (Frac)

/-- The client's copy of a proxy (`client.Proxy`). -/
structure CProxy where
  name     : String
  listen   : String
  upstream : String
  enabled  : Bool
  created  : Bool
deriving Repr, DecidableEq, Inhabited

/-- Toxic attributes as the caller gives them (a JSON object; Go marshals maps with sorted
keys — the order is irrelevant to the server). -/
abbrev Attrs := List (String × J)

inductive Op where
  | createProxy (name listen upstream : String)
  | getProxy (name : String)
  | save (p : CProxy)                     -- Save / Enable / Disable on a proxy object
  | delete (name : String)
  | toxics (name : String)
  | addToxic (proxy name type stream : String) (toxicity : Option Frac) (attrs : Attrs)
      -- toxicity `none` = the client-side "use the default" value -1
  | updateToxic (proxy name : String) (toxicity : Option Frac) (attrs : Attrs)
      -- toxicity `none` = -1 = "keep the current value"
  | removeToxic (proxy name : String)
  | clientAddToxic (proxy name type stream : String) (toxicity : Option Frac) (attrs : Attrs)
      -- Client.AddToxic(options): GET the proxy first, then proxy.AddToxic
  | clientUpdateToxic (proxy name : String) (toxicity : Option Frac) (attrs : Attrs)
  | clientRemoveToxic (proxy name : String)
  | proxies
  | reset
  | populate (ps : List CProxy)           -- Client.Populate(config)

def jstr (s : String) : J := .str s
def jfrac (f : Frac) : J := .num (if f.den == 1 then some f.num else none) (some f)

def req (m : Method) (path : List String) (body : Body) : Request := ⟨m, path, false, body⟩

/-- `json.Marshal(proxy)` of a client proxy: all four fields.  (The real body also carries a
`toxics` key with the client's copy of the toxic list; the server has no such field and
ignores it; engine E5 drops that key before comparing.) -/
def proxyBody (p : CProxy) : Body :=
  .val (.obj [("name", jstr p.name), ("listen", jstr p.listen), ("upstream", jstr p.upstream),
              ("enabled", .bool p.enabled)])

/-- One element of `json.Marshal(config)` in `Client.Populate`: the whole `Proxy` struct, i.e. the
four fields and the (nil) toxic list, which the server ignores. -/
def populateEntry (p : CProxy) : J :=
  .obj [("name", jstr p.name), ("listen", jstr p.listen), ("upstream", jstr p.upstream),
        ("enabled", .bool p.enabled), ("toxics", .null)]

/-- `json.Marshal(&Toxic{…})`: stream has `omitempty`; toxicity −1 has been replaced by 1. -/
def addToxicBody (name type stream : String) (toxicity : Option Frac) (attrs : Attrs) : Body :=
  .val (.obj ([("name", jstr name), ("type", jstr type)] ++
    (if stream == "" then [] else [("stream", jstr stream)]) ++
    [("toxicity", jfrac (toxicity.getD ⟨1, 1⟩)), ("attributes", .obj attrs)]))

/-- `UpdateToxic`: attributes always, toxicity only when it is not −1. -/
def updateToxicBody (toxicity : Option Frac) (attrs : Attrs) : Body :=
  .val (.obj ([("attributes", .obj attrs)] ++
    (match toxicity with | some t => [("toxicity", jfrac t)] | none => [])))

/-- `validateResponse`: anything outside 200..299 is an error for the caller. -/
def isError (r : Response) : Bool := !(200 ≤ r.status && r.status < 300)

structure Outcome where
  state    : State
  requests : List Request
  failed   : Bool          -- the client call returned an error
  last     : Option Response

def send (v : UpdVariant) (e : Env) (o : Outcome) (r : Request) : Outcome :=
  let (s', resp) := step v e o.state r
  { state := s', requests := o.requests ++ [r], failed := isError resp, last := some resp }

/-- Run one client operation against a server in state `s`. -/
def run (v : UpdVariant) (e : Env) (s : State) (op : Op) : Outcome :=
  let o0 : Outcome := ⟨s, [], false, none⟩
  match op with
  | .createProxy n l u => send v e o0 (req .post ["proxies"] (proxyBody ⟨n, l, u, true, false⟩))
  | .getProxy n => send v e o0 (req .get ["proxies", n] .empty)
  | .save p =>
    if p.created then send v e o0 (req .post ["proxies", p.name] (proxyBody p))
    else send v e o0 (req .post ["proxies"] (proxyBody p))
  | .delete n => send v e o0 (req .delete ["proxies", n] .empty)
  | .toxics n => send v e o0 (req .get ["proxies", n, "toxics"] .empty)
  | .addToxic p n t st tox attrs => send v e o0 (req .post ["proxies", p, "toxics"] (addToxicBody n t st tox attrs))
  | .updateToxic p n tox attrs => send v e o0 (req .patch ["proxies", p, "toxics", n] (updateToxicBody tox attrs))
  | .removeToxic p n => send v e o0 (req .delete ["proxies", p, "toxics", n] .empty)
  | .clientAddToxic p n t st tox attrs =>
    let o1 := send v e o0 (req .get ["proxies", p] .empty)
    if o1.failed then o1 else send v e o1 (req .post ["proxies", p, "toxics"] (addToxicBody n t st tox attrs))
  | .clientUpdateToxic p n tox attrs =>
    let o1 := send v e o0 (req .get ["proxies", p] .empty)
    if o1.failed then o1 else send v e o1 (req .patch ["proxies", p, "toxics", n] (updateToxicBody tox attrs))
  | .clientRemoveToxic p n =>
    let o1 := send v e o0 (req .get ["proxies", p] .empty)
    if o1.failed then o1 else send v e o1 (req .delete ["proxies", p, "toxics", n] .empty)
  | .proxies => send v e o0 (req .get ["proxies"] .empty)
  | .reset => send v e o0 (req .post ["reset"] .empty)
  | .populate ps => send v e o0 (req .post ["populate"] (.val (.arr (ps.map populateEntry))))

/-! ### Proxy handles

A `*client.Proxy` obtained from the server is a snapshot; `Enable`, `Disable` and `Save` send
the snapshot's fields (with the flag set) whatever the server's state has become meanwhile,
and a successful answer overwrites the snapshot. -/

def CProxy.ofRec (p : ProxyRec) : CProxy := ⟨p.name, p.listen, p.upstream, p.enabled, true⟩

inductive HOp where
  | fetch (name : String)              -- h = client.Proxy(name)
  | enable | disable | save | delete   -- h.Enable() …
  | setAddr (listen upstream : String) -- h.Listen, h.Upstream = … (no request)

/-- The handle after a `Save` that sent `h'`. -/
def afterSave (h' : CProxy) (o : Outcome) : CProxy :=
  if o.failed then h' else
  match o.last with
  | some ⟨_, .proxy p, _, _⟩ => CProxy.ofRec p
  | _ => { h' with created := true }

def runHandle (v : UpdVariant) (e : Env) (s : State) (h : Option CProxy) (op : HOp) :
    Outcome × Option CProxy :=
  let o0 : Outcome := ⟨s, [], false, none⟩
  match op, h with
  | .fetch n, _ =>
    let o := run v e s (.getProxy n)
    (match o.failed, s.find n with
     | false, some p => (o, some (CProxy.ofRec p))
     | _, _ => (o, h))
  | _, none => ({ o0 with failed := true }, none)      -- no handle: nothing to call
  | .enable, some x =>
    let x' := { x with enabled := true }
    let o := run v e s (.save x')
    (o, some (afterSave x' o))
  | .disable, some x =>
    let x' := { x with enabled := false }
    let o := run v e s (.save x')
    (o, some (afterSave x' o))
  | .save, some x =>
    let o := run v e s (.save x)
    (o, some (afterSave x o))
  | .delete, some x => (run v e s (.delete x.name), some x)
  | .setAddr l u, some x => (o0, some { x with listen := l, upstream := u })

end Toxi.Client

/-! ## toxiproxy-cli (`cmd/cli/cli.go`): which client operations each command performs -/
namespace Toxi.Client
open Toxi.Api
open Toxi.Toxic (Frac)

/-- How `toxic update` treats a missing `--toxicity`: the original code passed 1.0 (resetting
the toxic's toxicity), the repaired code passes −1 ("keep"). -/
inductive CliVariant where
  | legacy | fixed
deriving Repr, DecidableEq

inductive CliCmd where
  | list
  | inspect (p : String)
  | create (p listen upstream : String)
  | toggle (p : String)
  | delete (p : String)
  | toxicAdd (p name type : String) (upstream : Bool) (toxicity : Option Frac) (attrs : Attrs)
  | toxicUpdate (p name : String) (toxicity : Option Frac) (attrs : Attrs)
  | toxicRemove (p name : String)

def chain (v : UpdVariant) (e : Env) (o : Outcome) (op : Op) : Outcome :=
  if o.failed then o else
  let o' := run v e o.state op
  { o' with requests := o.requests ++ o'.requests }

def runCli (cv : CliVariant) (v : UpdVariant) (e : Env) (s : State) (cmd : CliCmd) : Outcome :=
  let o0 : Outcome := ⟨s, [], false, none⟩
  match cmd with
  | .list => run v e s .proxies
  | .inspect p => run v e s (.getProxy p)
  | .create p l u => run v e s (.createProxy p l u)
  | .toggle p =>
    let o1 := run v e s (.getProxy p)
    (match o1.failed, s.find p with
     | false, some x => chain v e o1 (.save ⟨x.name, x.listen, x.upstream, !x.enabled, true⟩)
     | _, _ => o1)
  | .delete p =>
    let o1 := run v e s (.getProxy p)
    chain v e o1 (.delete p)
  | .toxicAdd p n t up tox attrs =>
    -- `--type` is mandatory: without it the command fails before any request
    if t == "" then { o0 with failed := true } else
    chain v e o0 (.clientAddToxic p n t (if up then "upstream" else "downstream") (some (tox.getD ⟨1, 1⟩)) attrs)
  | .toxicUpdate p n tox attrs =>
    let t := match tox, cv with
      | some x, _ => some x
      | none, .legacy => some ⟨1, 1⟩
      | none, .fixed => none
    chain v e o0 (.clientUpdateToxic p n t attrs)
  | .toxicRemove p n => chain v e o0 (.clientRemoveToxic p n)

end Toxi.Client
