import Toxi.Model.Json
/-
Model of the HTTP API: `api.go` (routes, middleware, handlers), `proxy_collection.go`,
the configuration half of `toxic_collection.go`, and `Proxy.Update/Differs/start/stop` as
far as the registry is concerned.  Core Lean only.

`step : Env → State → Request → State × Response` follows the Go handlers branch for
branch (order of checks included).  Sockets are abstracted by `Env`: what
`net.ResolveTCPAddr` and `net.Listen` answer for each address spelling (measured by the
harness at session start) and which ports are held by someone else.
-/
namespace Toxi.Api
open Toxi.Toxic (Frac)

/-! ## Tables (checked against /repo by `Ties.lean` through the regenerated facts) -/

/-- Toxic registry: type name ↦ attribute json tags (all integer-valued), in struct order. -/
def toxicTypes : List (String × List String) :=
  [ ("noop", []), ("latency", ["latency", "jitter"]), ("bandwidth", ["rate"]),
    ("slicer", ["average_size", "size_variation", "delay"]), ("slow_close", ["delay"]),
    ("timeout", ["timeout"]), ("limit_data", ["bytes"]), ("reset_peer", ["timeout"]) ]

inductive Err where
  | badRequestBody | missingField | proxyNotFound | proxyAlreadyExists | invalidStream
  | invalidToxicType | toxicAlreadyExists | toxicNotFound
  | internal          -- an error without a status code: bind / resolve failure → 500
deriving Repr, DecidableEq, Inhabited

def Err.status : Err → Nat
  | .badRequestBody => 400 | .missingField => 400 | .proxyNotFound => 404
  | .proxyAlreadyExists => 409 | .invalidStream => 400 | .invalidToxicType => 400
  | .toxicAlreadyExists => 409 | .toxicNotFound => 404 | .internal => 500

/-! ## State -/

inductive Dir where | up | down
deriving Repr, DecidableEq, Inhabited

structure ToxicRec where
  name   : String
  type   : String
  stream : String          -- as given by the caller (letter case preserved)
  dir    : Dir
  tox    : Frac            -- exact value of the float32
  attrs  : List (String × Int)
deriving Repr, DecidableEq, Inhabited

structure ProxyRec where
  name     : String
  listen   : String
  upstream : String
  enabled  : Bool
  toxics   : List ToxicRec   -- upstream chain then downstream chain is *derived*: see `listing`
deriving Repr, DecidableEq, Inhabited

/-- The API lists the upstream chain first, then the downstream chain, each in order of
creation (`GetToxicArray`).  `toxics` is kept in creation order. -/
def ProxyRec.listing (p : ProxyRec) : List ToxicRec :=
  p.toxics.filter (·.dir == .up) ++ p.toxics.filter (·.dir == .down)

abbrev State := List ProxyRec

def State.find (s : State) (name : String) : Option ProxyRec := List.find? (·.name == name) s

def State.replace (s : State) (p : ProxyRec) : State :=
  s.map fun q => if q.name == p.name then p else q

def State.remove (s : State) (name : String) : State := s.filter (·.name != name)

/-! ## Network environment -/

structure Addr where
  spelling : String
  resolved : Option String   -- ResolveTCPAddr("tcp", s).String(); none = error
  bound    : Option String   -- Listen("tcp", s).Addr().String() when the port is free; none = cannot listen
  port     : Nat
deriving Repr, DecidableEq, Inhabited

structure Env where
  addrs : List Addr
  busy  : List Nat           -- ports held by foreign listeners
  /-- `(cur, new)`: `Proxy.Differs` finds the listen address `new` (as written in a request)
  to denote the address `cur` the proxy currently has — measured on the real `Differs` for
  every pair of spellings at session start. -/
  same  : List (String × String) := []
deriving Repr, Inhabited

def Env.sameListen (e : Env) (cur new : String) : Bool := e.same.contains (cur, new)

def Env.lookup (e : Env) (s : String) : Option Addr := e.addrs.find? (·.spelling == s)

def Env.resolve (e : Env) (s : String) : Option String := (e.lookup s).bind (·.resolved)

/-- Ports held by enabled proxies. A proxy's `listen` is a bound address: look its port up. -/
def portsInUse (e : Env) (s : State) : List Nat :=
  s.filterMap fun p => if p.enabled then (e.lookup p.listen).map (·.port) else none

/-- `start(proxy)`: `some p'` on success (enabled, listen = the bound address). -/
def startProxy (e : Env) (s : State) (p : ProxyRec) : Option ProxyRec :=
  match e.lookup p.listen with
  | none => none
  | some a =>
    match a.bound with
    | none => none
    | some b =>
      if e.busy.contains a.port || (portsInUse e (s.remove p.name)).contains a.port then none
      else some { p with enabled := true, listen := b }

/-- What "every spelling of a listen address" requires of `Differs`: the address a started
proxy reports (`bound`) and the spelling a stopped proxy keeps are both recognised as the
spelling they came from.  The harness measures `same` on the real code; `spellingOK` is
evaluated by the model driver on the measured table in every E4 session. -/
def spellingOK (e : Env) : Bool :=
  e.addrs.all fun a =>
    (match a.resolved with
     | some _ => e.sameListen a.spelling a.spelling &&
                 (match a.bound with | some b => e.sameListen b a.spelling | none => true)
     | none => true)

/-- The port a proxy's listen address denotes (if the address table knows it). -/
def ProxyRec.port (e : Env) (p : ProxyRec) : Option Nat := (e.lookup p.listen).map (·.port)

/-- The address a started listener reports is a spelling of the table, with the same port
(hypothesis of the port-exclusivity invariant, `Proofs/Lemmas/Ports.lean`; evaluated by the
model driver on the table measured from the real `net.Listen` in every session). -/
def boundOK (e : Env) : Bool :=
  e.addrs.all fun a =>
    match a.bound with
    | some b => (match e.lookup b with | some a' => a'.port == a.port | none => false)
    | none => true

/-! ## Requests and responses -/

inductive Method where | get | post | patch | delete | put | other
deriving Repr, DecidableEq, Inhabited

structure Request where
  method  : Method
  path    : List String      -- path segments
  browser : Bool             -- User-Agent starts with "Mozilla/"
  body    : Body
deriving Inhabited

inductive RespBody where
  | none
  | error (e : Err)
  | text (s : String)                    -- mux's own 404/405, the 403 text, version
  | proxy (p : ProxyRec)
  | proxies (ps : List ProxyRec)         -- GET /proxies (sorted by name by the comparison)
  | populate (ps : List ProxyRec) (e : Option Err)
  | toxic (t : ToxicRec)
  | toxics (ts : List ToxicRec)
deriving Repr, Inhabited

structure Response where
  status : Nat
  body   : RespBody
  /-- the failure was a bind / resolve failure (the designed exception of C06) -/
  netFail : Bool := false
  /-- the outcome depends on Go's map iteration order (reset failing part-way) -/
  nondet : Bool := false
deriving Repr, Inhabited

def errResp (e : Err) : Response := ⟨e.status, .error e, e == .internal, false⟩

/-! ## Decoding request bodies -/

structure ProxyInput where
  name : String
  listen : String
  upstream : String
  enabled : Bool
deriving Repr, Inhabited

/-- Decode a body into a `Proxy`-shaped struct with the given initial field values.
`none` = the decoder reported an error (nothing that was stored matters: the handlers
discard the struct). -/
def decodeProxy (init : ProxyInput) : Body → Option ProxyInput
  | .empty => none
  | .bad => none
  | .val .null => some init
  | .val (.obj kvs) =>
    let (n, e1) := applyStores storeString init.name (lookupAll kvs "name")
    let (l, e2) := applyStores storeString init.listen (lookupAll kvs "listen")
    let (u, e3) := applyStores storeString init.upstream (lookupAll kvs "upstream")
    let (en, e4) := applyStores storeBool init.enabled (lookupAll kvs "enabled")
    if e1 || e2 || e3 || e4 then none else some ⟨n, l, u, en⟩
  | .val _ => none

/-- Store an `attributes` object into a toxic's attribute record: new values and whether a
type error occurred (the values stored so far are kept — this is what decode-in-place
leaks). -/
def decodeAttrs (cur : List (String × Int)) : J → List (String × Int) × Bool
  | .null => (cur, false)
  | .obj kvs =>
    cur.foldl (fun (acc : List (String × Int) × Bool) (f : String × Int) =>
      let (v, e) := applyStores storeInt f.2 (lookupAll kvs f.1)
      (acc.1 ++ [(f.1, v)], acc.2 || e)) ([], false)
  | _ => (cur, true)

structure ToxicInput where
  name : String := ""
  type : String := ""
  stream : String := "downstream"
  tox : Frac := ⟨1, 1⟩
  attrsOK : Bool := true      -- the first decode stores `attributes` into a NoopToxic: kind check only
deriving Repr, Inhabited

def attrsKindOK : J → Bool
  | .null => true
  | .obj _ => true
  | _ => false

def decodeToxicWrapper : Body → Option ToxicInput
  | .empty => none
  | .bad => none
  | .val .null => some {}
  | .val (.obj kvs) =>
    let d : ToxicInput := {}
    let (n, e1) := applyStores storeString d.name (lookupAll kvs "name")
    let (t, e2) := applyStores storeString d.type (lookupAll kvs "type")
    let (s, e3) := applyStores storeString d.stream (lookupAll kvs "stream")
    let (x, e4) := applyStores storeF32 d.tox (lookupAll kvs "toxicity")
    let e5 := (lookupAll kvs "attributes").any fun j => !attrsKindOK j
    if e1 || e2 || e3 || e4 || e5 then none else some ⟨n, t, s, x, true⟩
  | .val _ => none

def parseDirection (s : String) : Option Dir :=
  -- `strings.ToLower(value)` then a switch; the exact spellings are tested first only to
  -- keep literal cases reducible in proofs
  if s == "downstream" || lower s == "downstream" then some .down
  else if s == "upstream" || lower s == "upstream" then some .up
  else none

def zeroAttrs (type : String) : Option (List (String × Int)) :=
  (toxicTypes.find? (·.1 == type)).map fun t => t.2.map fun tag => (tag, 0)

/-- The `attributes` values of a body (second decode of AddToxicJson / UpdateToxicJson):
successive objects bound to the key are stored one after the other. -/
def applyAttrBody (cur : List (String × Int)) (kvs : List (String × J)) : List (String × Int) × Bool :=
  (lookupAll kvs "attributes").foldl (fun (acc : List (String × Int) × Bool) j =>
    let (a, e) := decodeAttrs acc.1 j
    (a, acc.2 || e)) (cur, false)

/-- The fields of an object body (nothing for any other body). -/
def bodyFields : Body → List (String × J)
  | .val (.obj kvs) => kvs
  | _ => []

/-! ## Handlers -/

def findToxic (p : ProxyRec) (name : String) : Option ToxicRec :=
  -- findToxicByName searches the upstream chain first
  p.listing.find? (·.name == name)

/-- `ToxicCollection.AddToxicJson`. -/
def addToxic (p : ProxyRec) (b : Body) : Except Err (ProxyRec × ToxicRec) :=
  match decodeToxicWrapper b with
  | none => .error .badRequestBody
  | some w =>
    match parseDirection w.stream with
    | none => .error .invalidStream
    | some dir =>
      let name := if w.name == "" then w.type ++ "_" ++ w.stream else w.name
      match zeroAttrs w.type with
      | none => .error .invalidToxicType
      | some z =>
        if (findToxic p name).isSome then .error .toxicAlreadyExists
        else
          let (attrs, e) := applyAttrBody z (bodyFields b)
          if e then .error .badRequestBody
          else
            let t : ToxicRec := ⟨name, w.type, w.stream, dir, w.tox, attrs⟩
            .ok ({ p with toxics := p.toxics ++ [t] }, t)

/-- How `UpdateToxicJson` treats a body that fails to decode. -/
inductive UpdVariant where
  | legacy   -- decode into the live toxic: fields stored before the error stay (original code)
  | fixed    -- decode into a copy, swap on success (repaired code)
deriving Repr, DecidableEq

def replaceToxic (p : ProxyRec) (t : ToxicRec) : ProxyRec :=
  { p with toxics := p.toxics.map fun x => if x.name == t.name then t else x }

/-- `ToxicCollection.UpdateToxicJson`: returns the proxy (possibly changed even on error,
for `legacy`) and the outcome. -/
def updateToxic (v : UpdVariant) (p : ProxyRec) (name : String) (b : Body) :
    ProxyRec × Except Err ToxicRec :=
  match findToxic p name with
  | none => (p, .error .toxicNotFound)
  | some t =>
    match b with
    | .empty => (p, .error .badRequestBody)
    | .bad => (p, .error .badRequestBody)
    | .val .null => (p, .ok t)
    | .val (.obj kvs) =>
      let (attrs, e1) := applyAttrBody t.attrs kvs
      let (tox, e2) := applyStores storeF32 t.tox (lookupAll kvs "toxicity")
      if e1 || e2 then
        match v with
        | .legacy => (replaceToxic p { t with attrs := attrs }, .error .badRequestBody)
        | .fixed => (p, .error .badRequestBody)
      else
        let t' := { t with attrs := attrs, tox := tox }
        (replaceToxic p t', .ok t')
    | .val _ => (p, .error .badRequestBody)

def removeToxic (p : ProxyRec) (name : String) : Except Err ProxyRec :=
  match findToxic p name with
  | none => .error .toxicNotFound
  | some _ => .ok { p with toxics := p.toxics.filter (·.name != name) }

/-- `Proxy.Update` (under the proxy mutex): the new record and whether it failed
(`Differs` could not resolve, or `start` could not bind: the proxy is left as it then is). -/
def updateProxy (e : Env) (s : State) (p : ProxyRec) (inp : ProxyInput) : ProxyRec × Bool :=
  match e.resolve inp.listen with
  | none => (p, false)
  | some _ =>
    let differs := !(e.sameListen p.listen inp.listen) || p.upstream != inp.upstream
    let p1 := if differs then { p with enabled := false, listen := inp.listen, upstream := inp.upstream } else p
    if inp.enabled != p1.enabled then
      if inp.enabled then
        match startProxy e (s.replace p1) p1 with
        | some p2 => (p2, true)
        | none => (p1, false)
      else ({ p1 with enabled := false }, true)
    else (p1, true)

structure PopEntry where
  name : String
  listen : String
  upstream : String
  enabled : Option Bool
deriving Repr, Inhabited

/-- Decode the populate body: `none` = decode error. -/
def decodePopulate : Body → Option (List PopEntry)
  | .empty => none
  | .bad => none
  | .val .null => some []
  | .val (.arr xs) =>
    let r := xs.map fun x =>
      match x with
      | .null => (some (⟨"", "", "", none⟩ : PopEntry))
      | .obj kvs =>
        let (n, e1) := applyStores storeString "" (lookupAll kvs "name")
        let (l, e2) := applyStores storeString "" (lookupAll kvs "listen")
        let (u, e3) := applyStores storeString "" (lookupAll kvs "upstream")
        -- *bool: null sets nil, a boolean sets it
        let en := (lookupAll kvs "enabled").foldl (fun (acc : Option Bool × Bool) j =>
          match j with
          | .null => (none, acc.2)
          | .bool b => (some b, acc.2)
          | _ => (acc.1, true)) (none, false)
        if e1 || e2 || e3 || en.2 then none else some ⟨n, l, u, en.1⟩
      | _ => none
    if r.all (·.isSome) then some (r.filterMap id) else none
  | .val _ => none

/-- `AddOrReplace` for one populate entry; `Except.error` carries the state reached.
The Bool says whether an existing proxy of that name was stopped (replaced). -/
def addOrReplace (e : Env) (s : State) (x : PopEntry) : Except State (State × ProxyRec × Bool) :=
  let np : ProxyRec := ⟨x.name, x.listen, x.upstream, false, []⟩
  let start := x.enabled.getD true
  match s.find x.name with
  | some ex =>
    match e.resolve x.listen with
    | none => .error s
    | some _ =>
      if e.sameListen ex.listen x.listen && ex.upstream == x.upstream then .ok (s, ex, false)
      else
        let s1 := s.replace { ex with enabled := false }     -- existing.Stop()
        if start then
          match startProxy e s1 np with
          | some p => .ok (s1.replace p, p, true)
          | none => .error s1
        else .ok (s1.replace np, np, true)
  | none =>
    if start then
      match startProxy e s np with
      | some p => .ok (s ++ [p], p, false)
      | none => .error s
    else .ok (s ++ [np], np, false)

/-- The loop of `PopulateJson`; the accumulated list are the `*Proxy` values returned so
far: a proxy that a later entry of the same body replaces has been stopped by then. -/
def populateLoop (e : Env) : State → List PopEntry → List ProxyRec → State × List ProxyRec × Bool
  | s, [], acc => (s, acc, true)
  | s, x :: xs, acc =>
    match addOrReplace e s x with
    | .ok (s', p, replaced) =>
      let acc' := if replaced then acc.map (fun q => if q.name == x.name then { q with enabled := false } else q) else acc
      populateLoop e s' xs (acc' ++ [p])
    | .error s' =>
      let stopped := (s.find x.name).isSome && (s'.find x.name).map (·.enabled) == some false
      let acc' := if stopped then acc.map (fun q => if q.name == x.name then { q with enabled := false } else q) else acc
      (s', acc', false)

def populate (e : Env) (s : State) (b : Body) : State × Response :=
  match decodePopulate b with
  | none => (s, ⟨400, .populate [] (some .badRequestBody), false, false⟩)
  | some xs =>
    if xs.any (fun x => x.name == "" || x.upstream == "") then (s, ⟨400, .populate [] (some .missingField), false, false⟩)
    else
      let (s', ps, ok) := populateLoop e s xs []
      -- the response shows each returned proxy with the toxics it has when marshalled
      let view := ps
      if ok then (s', ⟨201, .populate view none, false, false⟩)
      else (s', ⟨500, .populate view (some .internal), true, false⟩)

/-- `/reset`: start every proxy, drop every toxic.  Go iterates a map: when a start fails
with other proxies still unvisited the outcome depends on the iteration order (`nondet`).
`resetStep` is one iteration of the loop over the proxies. -/
def resetStep (e : Env) (acc : State × Bool) (p : ProxyRec) : State × Bool :=
  if !acc.2 then acc else
  let cur := (acc.1.find p.name).getD p
  if cur.enabled then (acc.1.replace { cur with toxics := [] }, true)
  else match startProxy e acc.1 cur with
    | some p' => (acc.1.replace { p' with toxics := [] }, true)
    | none => (acc.1, false)

def reset (e : Env) (s : State) : State × Response :=
  let (s', ok) := s.foldl (resetStep e) (s, true)
  if ok then (s', ⟨204, .none, false, false⟩)
  else (s', ⟨500, .error .internal, true, s.length > 1⟩)

def mux404 : Response := ⟨404, .text "404 page not found", false, false⟩
def mux405 : Response := ⟨405, .text "", false, false⟩

/-- Which methods a path accepts (`Routes()`); `none` = no route has this path. -/
def routeMethods : List String → Option (List Method)
  | ["reset"] => some [.post]
  | ["proxies"] => some [.get, .post]
  | ["populate"] => some [.post]
  | ["proxies", _] => some [.get, .post, .patch, .delete]
  | ["proxies", _, "toxics"] => some [.get, .post]
  | ["proxies", _, "toxics", _] => some [.get, .post, .patch, .delete]
  | ["version"] => some [.get]
  | _ => none

def withProxy (s : State) (name : String) (k : ProxyRec → State × Response) : State × Response :=
  match s.find name with
  | none => (s, errResp .proxyNotFound)
  | some p => k p

def ok (status : Nat) (b : RespBody) : Response := ⟨status, b, false, false⟩

/-! One function per handler of `api.go`. -/

def hIndex (s : State) : State × Response := (s, ok 200 (.proxies s))

def hCreate (e : Env) (s : State) (b : Body) : State × Response :=
  match decodeProxy ⟨"", "", "", true⟩ b with
  | none => (s, errResp .badRequestBody)
  | some inp =>
    if inp.name == "" then (s, errResp .missingField)
    else if inp.upstream == "" then (s, errResp .missingField)
    else if (s.find inp.name).isSome then (s, errResp .proxyAlreadyExists)
    else
      let np : ProxyRec := ⟨inp.name, inp.listen, inp.upstream, false, []⟩
      if inp.enabled then
        match startProxy e s np with
        | some p => (s ++ [p], ok 201 (.proxy p))
        | none => (s, errResp .internal)
      else (s ++ [np], ok 201 (.proxy np))

def hShow (s : State) (name : String) : State × Response :=
  withProxy s name fun p => (s, ok 200 (.proxy p))

def hDelete (s : State) (name : String) : State × Response :=
  withProxy s name fun _ => (s.remove name, ok 204 .none)

def hUpdate (e : Env) (s : State) (name : String) (b : Body) : State × Response :=
  withProxy s name fun p =>
    match decodeProxy ⟨p.name, p.listen, p.upstream, p.enabled⟩ b with
    | none => (s, errResp .badRequestBody)
    | some inp =>
      match updateProxy e s p inp with
      | (p', true) => (s.replace p', ok 200 (.proxy p'))
      | (p', false) => (s.replace p', errResp .internal)

def hToxicIndex (s : State) (name : String) : State × Response :=
  withProxy s name fun p => (s, ok 200 (.toxics p.listing))

def hToxicCreate (s : State) (name : String) (b : Body) : State × Response :=
  withProxy s name fun p =>
    match addToxic p b with
    | .ok (p', t) => (s.replace p', ok 200 (.toxic t))
    | .error err => (s, errResp err)

def hToxicShow (s : State) (name tn : String) : State × Response :=
  withProxy s name fun p =>
    match findToxic p tn with
    | some t => (s, ok 200 (.toxic t))
    | none => (s, errResp .toxicNotFound)

def hToxicDelete (s : State) (name tn : String) : State × Response :=
  withProxy s name fun p =>
    match removeToxic p tn with
    | .ok p' => (s.replace p', ok 204 .none)
    | .error err => (s, errResp err)

def hToxicUpdate (v : UpdVariant) (s : State) (name tn : String) (b : Body) : State × Response :=
  withProxy s name fun p =>
    match updateToxic v p tn b with
    | (p', .ok t) => (s.replace p', ok 200 (.toxic t))
    | (p', .error err) => (s.replace p', errResp err)

/-- The handler a matched route runs (after the middleware). -/
def dispatch (v : UpdVariant) (e : Env) (s : State) (r : Request) : State × Response :=
  match r.path, r.method with
  | ["version"], _ => (s, ok 200 (.text "version"))
  | ["reset"], _ => reset e s
  | ["populate"], _ => populate e s r.body
  | ["proxies"], .get => hIndex s
  | ["proxies"], _ => hCreate e s r.body
  | ["proxies", name], .get => hShow s name
  | ["proxies", name], .delete => hDelete s name
  | ["proxies", name], _ => hUpdate e s name r.body
  | ["proxies", name, "toxics"], .get => hToxicIndex s name
  | ["proxies", name, "toxics"], _ => hToxicCreate s name r.body
  | ["proxies", name, "toxics", tn], .get => hToxicShow s name tn
  | ["proxies", name, "toxics", tn], .delete => hToxicDelete s name tn
  | ["proxies", name, "toxics", tn], _ => hToxicUpdate v s name tn r.body
  | _, _ => (s, mux404)

def browser403 : Response := ⟨403, .text "User agent not allowed", false, false⟩

def step (v : UpdVariant) (e : Env) (s : State) (r : Request) : State × Response :=
  match routeMethods r.path with
  | none => (s, mux404)
  | some ms =>
    if !ms.contains r.method then (s, mux405)
    else if r.browser then (s, browser403)
    else dispatch v e s r

end Toxi.Api
