import Toxi.Model.StageEnv
/-
The JSON values the API handlers see, and the subset of `encoding/json`'s
decode-into-struct behaviour they rely on (core Lean only).

Numbers arrive pre-classified by the harness with the very functions encoding/json uses:
`int` = result of `strconv.ParseInt(lit, 10, 64)` (none: not an integer literal or out of
range) and `f32` = the exact value of `strconv.ParseFloat(lit, 32)` as a fraction (none:
out of range).  Text-level JSON syntax is not modelled: a body is either syntactically
invalid (`Body.bad`), empty (`Body.empty`, the decoder reports EOF) or a value.

Decode rules modelled (each one is exercised by engine E4 against the real handlers):
  * object keys are matched against field tags exactly, else case-insensitively
  * the last duplicate wins; unknown keys are ignored
  * `null` is a no-op for a non-pointer field (and sets a pointer field to nil)
  * a value of the wrong kind for a field is *skipped*, decoding continues, and the first
    such error is returned at the end — fields before and after it have been stored
  * a non-object where a struct is expected is a type error of the whole value
-/
namespace Toxi.Api
open Toxi.Toxic (Frac)

inductive J where
  | null
  | bool (b : Bool)
  | num (int : Option Int) (f32 : Option Frac)
  | str (s : String)
  | arr (xs : List J)
  | obj (kvs : List (String × J))
deriving Inhabited

inductive Body where
  | empty            -- no body at all: Decode returns io.EOF
  | bad              -- not valid JSON (syntax error anywhere in the first value)
  | val (j : J)
deriving Inhabited

/-- ASCII case folding as used for key matching (names in play are ASCII). -/
def lower (s : String) : String := String.ofList (s.toList.map Char.toLower)
-- (written over the character list rather than with `String.map` so that the kernel can
-- evaluate it on literals: `decide` goes through)

/-- Does key `k` select the field tagged `tag`? -/
def keyMatches (tag k : String) : Bool := k == tag || lower k == lower tag

/-- All values bound (in order) to the field `tag` in an object. -/
def lookupAll (kvs : List (String × J)) (tag : String) : List J :=
  (kvs.filter fun kv => keyMatches tag kv.1).map (·.2)

/-- Result of storing one JSON value into one field. -/
inductive Store (α : Type) where
  | keep                -- null: field unchanged
  | set (a : α)
  | typeErr             -- wrong kind: field unchanged, error remembered
deriving Inhabited

def storeString : J → Store String
  | .null => .keep
  | .str s => .set s
  | _ => .typeErr

def storeBool : J → Store Bool
  | .null => .keep
  | .bool b => .set b
  | _ => .typeErr

def storeInt : J → Store Int
  | .null => .keep
  | .num (some i) _ => .set i
  | _ => .typeErr

def storeF32 : J → Store Frac
  | .null => .keep
  | .num _ (some f) => .set f
  | _ => .typeErr

/-- Fold the successive values bound to one field: returns the final value and whether a
type error occurred. -/
def applyStores {α : Type} (store : J → Store α) (cur : α) (vals : List J) : α × Bool :=
  vals.foldl (fun (acc : α × Bool) v =>
    match store v with
    | .keep => acc
    | .set a => (a, acc.2)
    | .typeErr => (acc.1, true)) (cur, false)

end Toxi.Api
