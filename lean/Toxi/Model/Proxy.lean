/-
Model of the proxy lifecycle of `proxy.go`: the accept loop (`server`), `freeBlocker`, and
a caller of `stop`, as three interleaved goroutines synchronised through the two tombs.
Core Lean only.  One constructor per program point between two synchronisation or socket
operations; an action is one atomic step of one goroutine (or of the environment), so the
reachable states are exactly the interleavings of the Go code at that granularity.
-/
namespace Toxi.Proxy

/-- The accept loop (`Proxy.server`). -/
inductive AccPc where
  | accepting                       -- blocked in listener.Accept()
  | dialing (client : Nat)          -- net.Dial(upstream) in progress
  | registering (client up : Nat)   -- about to register both sockets and start the links
  | exited                          -- returned (acceptTomb.Done() ran)
deriving Repr, DecidableEq

/-- `freeBlocker`. -/
inductive FbPc where
  | waitDying          -- <-proxy.tomb.Dying()
  | closeListener      -- acceptTomb.Killf done, about to proxy.close()
  | waitAccept         -- acceptTomb.Wait()
  | done               -- proxy.tomb.Done() ran
deriving Repr, DecidableEq

/-- The caller of `stop(proxy)` (disable, delete, re-address, replace). -/
inductive StopPc where
  | idle
  | waiting            -- Enabled=false, tomb.Killf done, blocked in tomb.Wait()
  | closing            -- about to close every registered connection
  | returned
deriving Repr, DecidableEq

structure PS where
  enabled      : Bool := true
  listenerOpen : Bool := true
  acc          : AccPc := .accepting
  fb           : FbPc := .waitDying
  stop         : StopPc := .idle
  tombDying    : Bool := false
  tombDead     : Bool := false
  registered   : List Nat := []     -- sockets in proxy.connections
  closed       : List Nat := []     -- sockets the proxy has closed
  accepted     : List Nat := []     -- every client socket ever accepted
  everReg      : List Nat := []     -- every socket ever put into proxy.connections (ghost)
deriving Repr, DecidableEq

inductive Action where
  | acceptOk (client : Nat)     -- a client connected (environment + accept loop)
  | acceptErr                   -- Accept failed because the listener is closed
  | acceptTransient             -- Accept failed for another reason (EMFILE, ECONNABORTED …)
  | dialOk (up : Nat)
  | dialFail
  | register
  | fbWake | fbClose | fbJoin
  | stopBegin | stopWake | stopClose
  | linkEnd (x : Nat)           -- a link's writer has finished: it closes its destination and unregisters it
deriving Repr, DecidableEq

/-- One step; `none` when the action is not enabled. -/
def step (s : PS) : Action → Option PS
  | .acceptOk c =>
    if s.acc = .accepting ∧ s.listenerOpen then some { s with acc := .dialing c, accepted := c :: s.accepted } else none
  | .acceptErr =>
    if s.acc = .accepting ∧ ¬ s.listenerOpen then some { s with acc := .exited } else none
  | .acceptTransient =>
    -- repaired code: `return` only if acceptTomb is dying (freeBlocker has woken up),
    -- otherwise log, wait 50 ms and accept again
    if s.acc = .accepting ∧ s.listenerOpen then
      (if s.fb = .waitDying then some s else some { s with acc := .exited })
    else none
  | .dialOk u =>
    match s.acc with
    | .dialing c => some { s with acc := .registering c u }
    | _ => none
  | .dialFail =>
    match s.acc with
    | .dialing c => some { s with acc := .accepting, closed := c :: s.closed }
    | _ => none
  | .register =>
    match s.acc with
    | .registering c u => some { s with acc := .accepting, registered := c :: u :: s.registered, everReg := c :: u :: s.everReg }
    | _ => none
  | .fbWake =>
    if s.fb = .waitDying ∧ s.tombDying then some { s with fb := .closeListener } else none
  | .fbClose =>
    if s.fb = .closeListener then some { s with fb := .waitAccept, listenerOpen := false } else none
  | .fbJoin =>
    if s.fb = .waitAccept ∧ s.acc = .exited then some { s with fb := .done, tombDead := true } else none
  | .stopBegin =>
    if s.stop = .idle ∧ s.enabled then some { s with stop := .waiting, enabled := false, tombDying := true } else none
  | .stopWake =>
    if s.stop = .waiting ∧ s.tombDead then some { s with stop := .closing } else none
  | .stopClose =>
    if s.stop = .closing then some { s with stop := .returned, closed := s.registered ++ s.closed } else none
  | .linkEnd x =>
    -- `ToxicLink.write`: dest.Close(), then RemoveConnection(<the link's own name>), the key under
    -- which `server` registered that very socket (facts `tie_registry`)
    if x ∈ s.registered then some { s with closed := x :: s.closed, registered := s.registered.filter (· != x) } else none

/-- Run a schedule (disabled actions are skipped: they cannot happen). -/
def run (s : PS) : List Action → PS
  | [] => s
  | a :: as => match step s a with
    | some s' => run s' as
    | none => run s as

end Toxi.Proxy
