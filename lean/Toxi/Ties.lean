import Toxi.Generated.Facts
import Toxi.Model.Api
import Toxi.Driver.E3

/-!
# Ties: the regenerated facts are what the models assume

`Toxi/Generated/Facts.lean` is rewritten from /repo's working tree by tools/factgen on
every run; every theorem here is closed by kernel `decide` on those facts.  A changed
route, status code, attribute tag, buffer size, default, a toxic that starts writing its
own (shared) fields, or a reordering of the synchronisation steps a model mirrors makes
the corresponding theorem fail to check: a broken proof obligation for the properties that
list it.  Order constraints are stated as *subsequences* of the extracted operation
sequence, so added logging or unrelated calls do not disturb them.
-/
namespace Toxi.Ties
open Toxi.Generated

def seqOf (name : String) : List String := (seqs.lookup name).getD []

/-- `xs` occurs in `ys` as a (not necessarily contiguous) subsequence. -/
def subseq : List String → List String → Bool
  | [], _ => true
  | _ :: _, [] => false
  | x :: xs, y :: ys => if x == y then subseq xs ys else subseq (x :: xs) ys

/-! ## API tables (C05, C06, C17, C19) -/

theorem tie_routes : routes =
    [("/reset", "POST", "server.ResetState"), ("/proxies", "GET", "server.ProxyIndex"),
     ("/proxies", "POST", "server.ProxyCreate"), ("/populate", "POST", "server.Populate"),
     ("/proxies/{proxy}", "GET", "server.ProxyShow"), ("/proxies/{proxy}", "POST,PATCH", "server.ProxyUpdate"),
     ("/proxies/{proxy}", "DELETE", "server.ProxyDelete"), ("/proxies/{proxy}/toxics", "GET", "server.ToxicIndex"),
     ("/proxies/{proxy}/toxics", "POST", "server.ToxicCreate"),
     ("/proxies/{proxy}/toxics/{toxic}", "GET", "server.ToxicShow"),
     ("/proxies/{proxy}/toxics/{toxic}", "POST,PATCH", "server.ToxicUpdate"),
     ("/proxies/{proxy}/toxics/{toxic}", "DELETE", "server.ToxicDelete"), ("/version", "GET", "server.Version")] := by
  decide

/-- The model's `routeMethods` is that table. -/
theorem tie_routeMethods :
    Toxi.Api.routeMethods ["reset"] = some [.post] ∧
    Toxi.Api.routeMethods ["proxies"] = some [.get, .post] ∧
    Toxi.Api.routeMethods ["populate"] = some [.post] ∧
    Toxi.Api.routeMethods ["proxies", "x"] = some [.get, .post, .patch, .delete] ∧
    Toxi.Api.routeMethods ["proxies", "x", "toxics"] = some [.get, .post] ∧
    Toxi.Api.routeMethods ["proxies", "x", "toxics", "y"] = some [.get, .post, .patch, .delete] ∧
    Toxi.Api.routeMethods ["version"] = some [.get] := by
  decide

theorem tie_browser_middleware : middleware.contains "stopBrowsersMiddleware" = true := by decide

theorem tie_errors : errors =
    [("ErrBadRequestBody", Toxi.Api.Err.badRequestBody.status), ("ErrInvalidStream", Toxi.Api.Err.invalidStream.status),
     ("ErrInvalidToxicType", Toxi.Api.Err.invalidToxicType.status), ("ErrMissingField", Toxi.Api.Err.missingField.status),
     ("ErrProxyAlreadyExists", Toxi.Api.Err.proxyAlreadyExists.status), ("ErrProxyNotFound", Toxi.Api.Err.proxyNotFound.status),
     ("ErrToxicAlreadyExists", Toxi.Api.Err.toxicAlreadyExists.status), ("ErrToxicNotFound", Toxi.Api.Err.toxicNotFound.status)] := by
  decide

theorem tie_defaults :
    defaults.contains "Stream=\"downstream\"" = true ∧ defaults.contains "Toxicity=1.0" = true ∧
    defaults.contains "Name=\"%s_%s\"" = true ∧ defaults.contains "Proxy.Enabled=true" = true := by decide

/-! ## Toxic registry (C04, C05, C07, C08–C14) -/

/-- Registered toxic types, their attribute tags (all integers), buffer sizes, which one has a
`Cleanup` and which one per-stub state: what `Api.toxicTypes`, `E3.mkCfg` and the link model use. -/
theorem tie_toxics : toxics =
    [("bandwidth", ["rate:int64"], 0, false, false),
     ("latency", ["latency:int64", "jitter:int64"], 1024, false, false),
     ("limit_data", ["bytes:int64"], 0, false, true),
     ("noop", [], 0, false, false),
     ("reset_peer", ["timeout:int64"], 0, false, false),
     ("slicer", ["average_size:int", "size_variation:int", "delay:int"], 0, false, false),
     ("slow_close", ["delay:int64"], 0, false, false),
     ("timeout", ["timeout:int64"], 0, true, false)] := by decide

/-- No toxic writes a field of its own (shared) object: per-connection independence (C01). -/
theorem tie_no_receiver_writes : receiverWrites = [] := by decide

/-! ## Order of synchronisation steps (C01, C02, C03, C15, C20) -/

theorem tie_stop : subseq ["set:proxy.Enabled", "call:tomb.Killf", "call:tomb.Wait", "call:connections.Lock", "loop", "call:conn.Close"]
    (seqOf "proxy.go:stop") = true := by decide

theorem tie_freeBlocker : subseq ["recv:tomb.Dying", "call:acceptTomb.Killf", "call:proxy.close", "call:acceptTomb.Wait", "call:tomb.Done"]
    (seqOf "proxy.go:Proxy.freeBlocker") = true := by decide

theorem tie_server : subseq ["defer:acceptTomb.Done", "go:proxy.freeBlocker", "loop", "call:listener.Accept", "recv:acceptTomb.Dying", "return",
      "call:time.Sleep", "continue",   -- a failed Accept that is not the shutdown: wait, accept again
      "call:net.Dial", "call:client.Close", "continue", "call:connections.Lock",
      "set:connections.list[name+\"upstream\"]", "set:connections.list[name+\"downstream\"]", "call:connections.Unlock",
      "call:Toxics.StartLink", "call:Toxics.StartLink"]
    (seqOf "proxy.go:Proxy.server") = true := by decide

/-- `server` binds first and tells the caller (both branches of `listen` send on `started`); only
after a successful bind does it register with its tomb, start `freeBlocker` and loop. -/
theorem tie_server_start :
    subseq ["call:proxy.listen", "return", "defer:acceptTomb.Done", "go:proxy.freeBlocker", "loop", "call:listener.Accept"] (seqOf "proxy.go:Proxy.server") = true ∧
    ((seqOf "proxy.go:Proxy.server").take 2 = ["call:proxy.listen", "return"]) ∧
    subseq ["call:net.Listen", "send:proxy.started", "return", "send:proxy.started", "return"] (seqOf "proxy.go:Proxy.listen") = true := by decide

/-- The registry of a proxy's sockets is keyed by link name: under `<name>upstream` the accept loop
stores the socket that the link of that name writes to (its destination), likewise for
`<name>downstream`; a finished link closes its destination and removes its own name (`tie_link_write`).
This is what `Proxy.step (.linkEnd x)` models: the socket unregistered is the socket just closed. -/
theorem tie_registry :
    subseq ["set:connections.list[name+\"upstream\"]", "is:upstream", "set:connections.list[name+\"downstream\"]", "is:client",
            "call:Toxics.StartLink", "args:name+\"upstream\",client,upstream,stream.Upstream",
            "call:Toxics.StartLink", "args:name+\"downstream\",upstream,client,stream.Downstream"]
      (seqOf "proxy.go:Proxy.server") = true := by decide

theorem tie_start : subseq ["set:proxy.tomb", "go:proxy.server", "recv:proxy.started", "set:proxy.Enabled"] (seqOf "proxy.go:start") = true := by decide

theorem tie_update : subseq ["call:proxy.Lock", "call:proxy.Differs", "call:stop", "set:proxy.Listen", "set:proxy.Upstream", "call:start", "call:stop"]
    (seqOf "proxy.go:Proxy.Update") = true := by decide

theorem tie_stub_close : subseq ["call:s.Closed", "call:close", "call:close", "go:func", "loop"] (seqOf "toxics/toxic.go:ToxicStub.Close") = true := by decide

theorem tie_interrupt : seqOf "toxics/toxic.go:ToxicStub.InterruptToxic" =
    ["select", "recv:s.closed", "return", "send:s.Interrupt", "recv:s.running", "return"] := by decide

theorem tie_run : subseq ["set:s.running", "defer:close", "call:rand.Float32", "call:toxic.Pipe", "call:new().Pipe"] (seqOf "toxics/toxic.go:ToxicStub.Run") = true := by decide

theorem tie_link_read : subseq ["call:io.Copy", "call:ReceivedBytesTotal.WithLabelValues", "call:input.Close"] (seqOf "link.go:ToxicLink.read") = true := by decide

theorem tie_link_write : subseq ["call:io.Copy", "call:SentBytesTotal.WithLabelValues", "call:dest.Close", "call:toxics.RemoveLink", "call:proxy.RemoveConnection"]
    (seqOf "link.go:ToxicLink.write") = true := by decide

theorem tie_link_start : subseq ["go:link.read", "loop", "go:stubs[i].Run", "go:link.write"] (seqOf "link.go:ToxicLink.Start") = true := by decide

theorem tie_add : seqOf "link.go:ToxicLink.AddToxic" =
    ["set:link.stubs", "call:toxics.NewToxicStub", "call:stubs[i-1].InterruptToxic", "set:stubs[i-1].Output", "set:stubs[i].State",
     "call:stateful.NewState", "go:stubs[i].Run", "go:stubs[i-1].Run", "set:stubs[i].Output", "call:stubs[i].Close"] := by decide

theorem tie_update_link : seqOf "link.go:ToxicLink.UpdateToxic" = ["call:Index].InterruptToxic", "go:Index].Run"] := by decide

theorem tie_remove : seqOf "link.go:ToxicLink.RemoveToxic" =
    ["call:stubs[toxic_index].InterruptToxic", "call:cleanup.Cleanup", "call:stubs[toxic_index].Closed", "return", "go:func", "send:stop",
     "call:stub.InterruptToxic", "loop", "select", "recv:stop", "recv:stubs[toxic_index].Input", "call:stubs[toxic_index].Close", "recv:stop",
     "return", "call:stubs[toxic_index].WriteOutput", "loop", "recv:stubs[toxic_index].Input", "call:stubs[toxic_index].Close", "return",
     "call:stubs[toxic_index].WriteOutput", "set:stubs[toxic_index-1].Output", "set:link.stubs", "go:stubs[toxic_index-1].Run"] := by decide

theorem tie_chain_ops :
    subseq ["set:toxic.Index", "set:c.chain[dir]", "loop", "go:func", "call:link.AddToxic", "call:wg.Wait"] (seqOf "toxic_collection.go:ToxicCollection.chainAddToxic") = true ∧
    subseq ["set:Direction][toxic.Index]", "loop", "go:func", "call:link.UpdateToxic", "call:group.Wait"] (seqOf "toxic_collection.go:ToxicCollection.chainUpdateToxic") = true ∧
    subseq ["set:c.chain[dir]", "loop", "set:chain[dir][i].Index", "loop", "go:func", "call:link.RemoveToxic", "call:wg.Wait", "set:toxic.Index"] (seqOf "toxic_collection.go:ToxicCollection.chainRemoveToxic") = true ∧
    subseq ["call:c.Lock", "defer:c.Unlock", "loop", "loop", "call:c.chainRemoveToxic"] (seqOf "toxic_collection.go:ToxicCollection.ResetToxics") = true ∧
    subseq ["call:c.Lock", "defer:c.Unlock", "call:NewToxicLink", "call:link.Start", "set:c.links[name]"] (seqOf "toxic_collection.go:ToxicCollection.StartLink") = true := by
  decide

theorem tie_collection :
    subseq ["call:collection.Lock", "defer:collection.Unlock", "return", "call:proxy.Start", "return", "set:proxies[proxy.Name]"] (seqOf "proxy_collection.go:ProxyCollection.Add") = true ∧
    subseq ["call:collection.Lock", "defer:collection.Unlock", "call:existing.Differs", "call:existing.Stop", "call:proxy.Start", "set:proxies[proxy.Name]"] (seqOf "proxy_collection.go:ProxyCollection.AddOrReplace") = true ∧
    subseq ["call:collection.Lock", "defer:collection.Unlock", "call:collection.getByName", "call:proxy.Stop"] (seqOf "proxy_collection.go:ProxyCollection.Remove") = true ∧
    subseq ["call:NewDecoder().Decode", "return", "loop", "return", "return", "loop", "call:NewProxy", "call:collection.AddOrReplace"] (seqOf "proxy_collection.go:ProxyCollection.PopulateJson") = true := by
  decide

theorem tie_toxic_json :
    subseq ["call:c.Lock", "defer:c.Unlock", "call:NewDecoder().Decode", "return", "call:stream.ParseDirection", "return", "set:wrapper.Name",
            "call:toxics.New", "return", "call:c.findToxicByName", "return", "call:NewDecoder().Decode", "return", "call:c.chainAddToxic"]
      (seqOf "toxic_collection.go:ToxicCollection.AddToxicJson") = true ∧
    subseq ["call:c.Lock", "defer:c.Unlock", "call:c.findToxicByName", "call:reflect.New", "call:NewDecoder().Decode", "return", "set:toxic.Toxic", "set:toxic.Toxicity", "call:c.chainUpdateToxic"]
      (seqOf "toxic_collection.go:ToxicCollection.UpdateToxicJson") = true := by
  decide

theorem tie_chanreader : seqOf "stream/io_chan.go:ChanWriter.Write" = ["call:time.Now", "send:c.output", "return"] ∧
    seqOf "stream/io_chan.go:ChanWriter.Close" = ["call:close", "return"] := by decide

/-! ### Client library and CLI (model `Toxi.Client`) -/

def callsOf (name : String) : List String := (clientCalls.lookup name).getD []

/-- Verb and path of every client operation, the two toxicity guards (−1 = default on add,
−1 = keep on update), the `created` switch of `Save`, the 2xx test of `validateResponse`. -/
theorem tie_client :
    callsOf "client/client.go:Client.get" = ["send:\"GET\""] ∧
    callsOf "client/client.go:Client.post" = ["send:\"POST\""] ∧
    callsOf "client/client.go:Client.patch" = ["send:\"PATCH\""] ∧
    callsOf "client/client.go:Client.delete" = ["send:\"DELETE\""] ∧
    callsOf "client/client.go:Client.validateResponse" = ["if:resp.StatusCode<300&&resp.StatusCode>=200"] ∧
    callsOf "client/client.go:Client.Proxies" = ["get:\"/proxies\""] ∧
    callsOf "client/client.go:Client.Proxy" = ["get:\"/proxies/\"+name"] ∧
    callsOf "client/client.go:Client.ResetState" = ["post:\"/reset\""] ∧
    callsOf "client/proxy.go:Proxy.Save" = ["if:proxy.created", "post:\"/proxies/\"+proxy.Name", "post:\"/proxies\""] ∧
    callsOf "client/proxy.go:Proxy.Delete" = ["delete:\"/proxies/\"+proxy.Name"] ∧
    callsOf "client/proxy.go:Proxy.Toxics" = ["get:\"/proxies/\"+proxy.Name+\"/toxics\""] ∧
    callsOf "client/proxy.go:Proxy.AddToxic" = ["if:toxic.Toxicity==-1", "post:\"/proxies/\"+proxy.Name+\"/toxics\""] ∧
    callsOf "client/proxy.go:Proxy.UpdateToxic" = ["if:toxicity!=-1", "patch:\"/proxies/\"+proxy.Name+\"/toxics/\"+name"] ∧
    callsOf "client/proxy.go:Proxy.RemoveToxic" = ["delete:\"/proxies/\"+proxy.Name+\"/toxics/\"+name"] := by
  decide

/-- The CLI's toxicity defaults: `toxic add` passes 1.0, `toxic update` passes −1 (keep). -/
theorem tie_cli :
    callsOf "cmd/cli/cli.go:parseUpdateToxicParams" = ["parseToxicity:-1"] ∧
    callsOf "cmd/cli/cli.go:parseAddToxicParams" = ["parseToxicity:1.0"] := by
  decide


/-! ### Lock order (C16) -/

/-- The order in which the mutexes of package toxiproxy may be nested; `acceptloop` is the accept
loop itself, which `stop()` joins (`proxy.tomb.Wait()`) while holding the proxy's mutex.  A class
this table does not know has rank 0 and fails the tie. -/
def lockRank : String → Nat
  | "ProxyCollection" => 1
  | "Proxy" => 2
  | "acceptloop" => 3
  | "ToxicCollection" => 4
  | "ConnectionList" => 4
  | _ => 0

/-- Every nesting that occurs in the source climbs in that order (in particular no toxic operation
takes a proxy's mutex, and nothing takes the collection lock while holding another lock). -/
theorem tie_lock_order : lockOrder.all (fun e => 0 < lockRank e.1 && lockRank e.1 < lockRank e.2.1) = true := by decide

end Toxi.Ties
