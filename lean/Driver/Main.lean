import Toxi.Driver.E1
import Toxi.Driver.E2
import Toxi.Driver.E3
import Toxi.Driver.E4
import Toxi.Driver.E5
import Toxi.Driver.E6
import Toxi.Driver.E7
/-
Model driver: reads one protocol line per operation on stdin, answers one line on stdout.
First argument selects the engine adapter.  Core Lean only (compiled as a lean_exe).
-/
open Toxi.Driver

partial def loop {σ : Type} (hin hout : IO.FS.Stream) (step : σ → String → σ × String) (s : σ) : IO Unit := do
  let line ← hin.getLine
  if line.isEmpty then return ()
  let l := line.trimAscii.toString
  if l == "reset" then
    hout.putStrLn "reset-unsupported"; hout.flush; loop hin hout step s
  else
    let (s', out) := step s l
    hout.putStrLn out
    hout.flush
    loop hin hout step s'

/-- `reset` starts a fresh episode; `try <op>` answers without committing; `push`/`pop` keep a
stack of saved states (the linearizability search of engine E7 backtracks with them). -/
partial def loopS {σ : Type} (hin hout : IO.FS.Stream) (init : σ) (step : σ → String → σ × String)
    (s : σ) (stack : List σ) : IO Unit := do
  let line ← hin.getLine
  if line.isEmpty then return ()
  let l := line.trimAscii.toString
  if l == "reset" then
    hout.putStrLn "ok"; hout.flush; loopS hin hout init step init []
  else if l == "push" then
    hout.putStrLn "ok"; hout.flush; loopS hin hout init step s (s :: stack)
  else if l == "pop" then
    match stack with
    | t :: rest => hout.putStrLn "ok"; hout.flush; loopS hin hout init step t rest
    | [] => hout.putStrLn "bad-op empty-stack"; hout.flush; loopS hin hout init step s []
  else if l.startsWith "try " then
    let (_, out) := step s (l.drop 4).toString
    hout.putStrLn out
    hout.flush
    loopS hin hout init step s stack
  else
    let (s', out) := step s l
    hout.putStrLn out
    hout.flush
    loopS hin hout init step s' stack

def loopR {σ : Type} (hin hout : IO.FS.Stream) (init : σ) (step : σ → String → σ × String) (s : σ) : IO Unit :=
  loopS hin hout init step s []

def main (args : List String) : IO UInt32 := do
  let hin ← IO.getStdin
  let hout ← IO.getStdout
  match args with
  | ["e1"] => loopR hin hout E1.init E1.step E1.init; return 0
  | ["e3"] => loopR hin hout E3.init E3.step E3.init; return 0
  | ["e6"] => loopR hin hout E6.init E6.step E6.init; return 0
  | ["e5"] => loopR hin hout E5.init E5.step E5.init; return 0
  | ["e4"] => loopR hin hout E4.init E4.step E4.init; return 0
  | ["e7"] => loopR hin hout E7.init E7.step E7.init; return 0
  | ["e2"] => loopR hin hout E2.init E2.step E2.init; return 0
  | _ => IO.eprintln "usage: driver e1|..."; return 2
