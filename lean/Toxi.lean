import Toxi.Model.Stream
