"""Registry: for every claimed property, the Lean modules and theorems that decide it and
the correspondence engines that tie the model to /repo."""

PROPS = {
    "C18": {
        "lean_modules": ["Toxi.Proofs.C18"],
        "theorems": [
            "Toxi.Stream.C18_fifo",
            "Toxi.Stream.C18_prefix",
            "Toxi.Stream.C18_eof",
            "Toxi.Stream.C18_eof_sticky",
            "Toxi.Stream.C18_closed_progress",
            "Toxi.Stream.C18_interrupt_lossless",
            "Toxi.Stream.C18_legacy_fails",
        ],
        "engines": [{"engine": "e1"}],
        "model_scope": "stream/io_chan.go: ChanWriter.Write/Close, ChanReader.Read (every branch, both selects); channel modelled as an unbounded FIFO of chunks",
        "assumptions": [
            "Go channel FIFO order and select semantics; copy() semantics",
            "channel capacity only restricts when a write is enabled (the model's queue is unbounded)",
            "the writer-does-not-retain-the-buffer clause is exercised by E1 (the harness scribbles over the caller's buffer after every Write) but is not a separate theorem: the model's chunks are values",
        ],
    },

}

_E2_ASSUME = [
    "Go channel/select semantics; testing/synctest's virtual clock is punctual and monotone (timers never early is the only clock assumption of the theorems)",
    "math/rand results are inputs of the model (scripted through the build overlay in E2); nothing is assumed about their distribution except in C14_measure",
    "durations do not overflow int64 (explicit hypotheses MsOK/LatOK/BwOK/SlicerOK of the theorems)",
]


def _e2(prop, only):
    return [{"engine": "e2", "gotest": True, "args": ["-only", only, "-props", prop], "tag": prop}]


def _stage(prop, theorems, only, scope):
    return {
        "lean_modules": ["Toxi.Proofs." + prop],
        "theorems": ["Toxi.Toxic." + t for t in theorems],
        "engines": _e2(prop, only),
        "needs_gotest": True,
        "model_scope": scope,
        "assumptions": _E2_ASSUME,
    }


PROPS["C08"] = _stage("C08", ["C08_lower", "C08_upper", "C08_stamp", "C08_series", "C08_burst", "C08_legacy_series_fails", "latency_input", "delayMs_bounds"],
                      "latency", "toxics/latency.go: delay(), Pipe (every select), as coroutine Toxi.Toxic.step; ToxicStub.Run/InterruptToxic via Model/StageEnv")
PROPS["C09"] = _stage("C09", ["Bw.inv_step", "C09_rate", "Bw.inv_init", "C09_not_late", "C09_recv", "C09_instalment", "C09_final"],
                      "bandwidth", "toxics/bandwidth.go: Pipe incl. instalment loop, final wait, interrupt flush (WriteOutput 5 s)")
PROPS["C10"] = _stage("C10", ["C10_blackhole", "C10_deadline_fixed", "C10_close_exact", "C10_zero", "C10_legacy_fails", "C10_start_pc"],
                      "timeout", "toxics/timeout.go: Pipe (both loops); Cleanup is modelled at link level")
PROPS["C11"] = _stage("C11", ["C11_step", "C11_exact", "C11_chunking_irrelevant", "C11_persists", "limitRun_take"],
                      "limit_data", "toxics/limit_data.go: Pipe with per-stub LimitDataToxicState")
PROPS["C12"] = _stage("C12", ["C12_chunk", "C12_terminates", "C12_partition", "C12_gap", "C12_interrupt", "C12_unguarded_diverges"],
                      "slicer", "toxics/slicer.go: chunk() recursion with draws as inputs, Pipe piece/gap loop and interrupt flush")
PROPS["C13"] = _stage("C13", ["C13_slow_passes", "C13_slow_delay", "C13_reset_silent", "C13_reset_timing"],
                      "slow_close,reset_peer", "toxics/slow_close.go, toxics/reset_peer.go: Pipe; the SO_LINGER/RST clause is kernel behaviour (not modelled at this level)")
PROPS["C14"] = _stage("C14", ["C14_inactive_is_noop", "C14_inactive_start", "C14_zero", "C14_one", "C14_decision", "C14_measure"],
                      "timeout,noop,limit_data,latency", "toxics/toxic.go: ToxicStub.Run (one draw per start, toxic or noop)")


PROPS["C07"] = {
    "lean_modules": ["Toxi.Proofs.C07", "Toxi.Proofs.C03"],
    "theorems": ["Toxi.Toxic." + t for t in ["C07_step_never_crashes", "C07_run_never_crashes", "start_wf", "step_wf_lossy",
                                              "step_conserves", "chunk_total", "bwLoop_ok", "C07_slicer_variation_diverges",
                                              "C07_bandwidth_negative_rate_panics", "C07_latency_huge_jitter_panics",
                                              "C12_unguarded_diverges"]] + ["Toxi.Proxy.C07_transient_accept_error_keeps_accepting", "Toxi.Proxy.C03_down"],
    "engines": [{"engine": "e2", "gotest": True, "args": ["-props", "C07"], "tag": "C07wild"},
                {"engine": "e9", "args": [], "tag": "C07proc"},
                {"engine": "e4", "args": ["-props", "C05,C06"], "tag": "C07api"}],
    "needs_gotest": True,
    "model_scope": "toxics/*.go Pipe functions with attribute values over the whole int64 range",
    "assumptions": _E2_ASSUME,
}

_E4_ASSUME = [
    "encoding/json is modelled only in the subset the handlers use (object-into-struct decoding with case-insensitive keys, last duplicate wins, unknown keys ignored, null no-op, type errors skip the field and are reported at the end); JSON text syntax is not modelled (the harness classifies a body as invalid with encoding/json itself)",
    "gorilla/mux routing (404 / 405 before middleware), http.TimeoutHandler, net.Listen / net.ResolveTCPAddr behaviour are environment: address tables are measured on every run and passed to the model",
    "requests are issued one at a time (concurrent requests: C16)",
    "listen addresses with port 0 / empty (kernel-chosen port) are outside the address table and not generated",
]


PROPS["C16"] = {
    "lean_modules": ["Toxi.Proofs.C16"],
    "theorems": ["Toxi.Conc." + t for t in [
        "C16_alone_is_sequential", "C16_sequential_runs", "C16_single_block_atomic", "C16_toxic_effect_atomic",
        "alone_single", "alone_toxic", "alone_update", "step_update", "step_toxic_absent", "kindOf_toxic_inv", "kindOf_update_inv",
        "alone_replace", "step_replace", "kindOf_replace_inv", "find_replace_self",
        "C16_zombie_witness", "C16_zombie_not_sequential", "C16_lost_disable_witness", "C16_lost_disable_not_sequential",
        "C16_replace_race_witness", "C16_replace_race_not_sequential",
        "C16_replace_stopped_witness", "C16_replace_stopped_not_sequential", "stopFirst_spec"]],
    "engines": [{"engine": "e7", "args": [], "tag": "C16"}],
    "model_scope": "api.go handlers as sequences of atomic blocks (Model/Conc.lean): ProxyCreate/ProxyDelete/reads one block (ProxyCollection.Add/Remove under the collection lock), a populate that replaces a proxy - running or stopped - two (AddOrReplace: existing.Stop(), which does nothing to a stopped proxy, then proxy.Start() and the insert — the collection lock is held across both, which stops every other handler's first block but not a Proxy.Update that has already looked its proxy object up: of another proxy, or of the very object being replaced), toxic add/update/remove two blocks (lookup, then the ToxicCollection method on that object), ProxyUpdate four (lookup, unlocked read of the defaults + decode, Proxy.Update whose stop-then-start is visible half-way to unlocked readers); proxy objects identified by (name, epoch); listeners of unregistered objects (zombies)",
    "assumptions": _E4_ASSUME + [
        "sync.Mutex/RWMutex give mutual exclusion; a block is what one critical section (or one unlocked read) does — data races inside a block other than the ones modelled (the unlocked reads of a proxy's listen/upstream/enabled) are not modelled",
        "E7's schedules are the real scheduler's plus pseudo-random sleeps at the yield points the overlay inserts into api.go (seven), proxy.go (before Proxy.Update's restart) and proxy_collection.go (between AddOrReplace's stop and start); nothing guarantees that every interleaving is visited",
        "response bodies are not compared (marshalled after the locks are released); multi-entry populate and reset are excluded from the overlapping sets",
    ],
}



def _api(prop, theorems, extra_assume=()):
    return {
        "lean_modules": ["Toxi.Proofs." + prop],
        "theorems": ["Toxi.Api." + t for t in theorems],
        "engines": [{"engine": "e4", "args": ["-props", prop], "tag": prop}],
        "model_scope": "api.go (routes, stopBrowsersMiddleware, all handlers), proxy_collection.go (Add, AddOrReplace, PopulateJson, Remove), toxic_collection.go (AddToxicJson, UpdateToxicJson, RemoveToxic, ResetToxics: configuration part), proxy.go (Update, Differs, start/stop as registry effects)",
        "assumptions": _E4_ASSUME + list(extra_assume),
    }


PROPS["C05"] = _api("C05", ["C05_browser_403", "C05_unrouted", "step_routed", "C05_unknown_proxy_404", "C05_unknown_toxic_404",
                            "C05_create_dup_409", "C05_create_bad_400", "C05_create_ok", "C05_default_enabled",
                            "C05_toxic_defaults", "C05_toxic_rejects", "C05_toxic_dup_409", "C05_read_your_writes",
                            "C05_listing_order", "addToxic_ok", "inv_step", "C05_reachable_inv"])
PROPS["C05"]["lean_modules"] = PROPS["C05"]["lean_modules"] + ["Toxi.Proofs.Lemmas.InvStep", "Toxi.Proofs.Lemmas.Ports"]
PROPS["C05"]["theorems"] = PROPS["C05"]["theorems"] + ["Toxi.Api." + t for t in [
    "C05_reachable_ports", "pinv_step", "ports_nodup", "startProxy_spec", "pinv_replace", "pinv_append", "fits_updateProxy"]]
PROPS["C05"]["assumptions"] = PROPS["C05"]["assumptions"] + [
    "port exclusivity (C05_reachable_ports) is under hypothesis boundOK on the address table measured from the real net.Listen / ResolveTCPAddr: the address a listener reports is a spelling of the table with the same port; the model driver evaluates boundOK on the measured table in every E4 session (a false value is reported as a broken obligation)"]
PROPS["C05"]["lean_modules"] = PROPS["C05"]["lean_modules"] + ["Toxi.Proofs.Lemmas.Unmentioned"]
PROPS["C05"]["theorems"] = PROPS["C05"]["theorems"] + ["Toxi.Api." + t for t in ["C05_update_keeps_enabled", "C05_update_reflected"]]
PROPS["C06"] = _api("C06", ["C06_rejected_unchanged", "C06_populate_validates_first", "C06_exception_update", "C06_legacy_leaks",
                            "dispatch_unchanged", "updateToxic_fixed_err", "C06_rejected_unchanged_reachable", "inv_step"],
                    ["treatment of traffic: the registry state compared contains every toxic's attributes and toxicity; that links run exactly the listed configuration is C04"])
PROPS["C06"]["lean_modules"] = PROPS["C06"]["lean_modules"] + ["Toxi.Proofs.Lemmas.InvStep"]
# C06 under concurrency: a refused create leaves no listener behind (E7; its C16 verdicts are C16's)
PROPS["C06"]["engines"] = PROPS["C06"]["engines"] + [{"engine": "e7", "args": [], "tag": "C06conc"}]
PROPS["C17"] = _api("C17", ["C17_same_untouched", "C17_idempotent", "C17_differs_replaces", "C17_spelling", "populateLoop_all_match"],
                    ["'every spelling': theorem C17_spelling is under hypothesis spellingOK on the relation measured from the real Proxy.Differs; the model driver evaluates spellingOK on the measured table in every run (a false value is reported as a broken obligation)",
                     "live connections surviving a matching populate / dropped by a replacing one: registry-level here (the proxy object is untouched / stopped); socket level belongs to C03"])

PROPS["C17"]["lean_modules"] = PROPS["C17"]["lean_modules"] + ["Toxi.Proofs.Lemmas.Reset"]
PROPS["C17"]["theorems"] = PROPS["C17"]["theorems"] + ["Toxi.Api." + t for t in [
    "C17_reset_clean", "C17_reset_refused_keeps", "C17_reset_idempotent", "rinv_step", "rinv_fold"]]


PROPS["C19"] = {
    "lean_modules": ["Toxi.Proofs.C19"],
    "theorems": ["Toxi.Client." + t for t in [
        "C19_errors_surface", "C19_lookup_failure_stops", "C19_update_keeps_toxicity", "C19_update_sets_toxicity",
        "C19_add_defaults", "C19_cli_update_fixed", "C19_cli_update_body", "C19_cli_legacy_resets",
        "C19_toggle_request", "C19_cli_add_needs_type", "get_proxy_state", "get_proxy_status",
        "C19_handle_always_sends", "C19_handle_enable_effect", "updateProxy_ok_enabled", "proxyBody_decode"]],
    "engines": [{"engine": "e5", "args": ["-props", "C19"], "tag": "C19"}],
    "model_scope": "client/client.go (Proxies, Proxy, CreateProxy, ResetState, AddToxic, UpdateToxic, RemoveToxic, get/post/patch/delete, validateResponse), client/proxy.go (Save, Enable, Disable, Delete, Toxics, AddToxic, UpdateToxic, RemoveToxic), cmd/cli/cli.go (list, inspect, create, toggle, delete, toxic add/update/remove: the requests they cause and their exit status); the server side is the API model of C05",
    "assumptions": _E4_ASSUME + [
        "the requests the real client and the real toxiproxy-cli binary put on the wire are recorded by a reverse proxy in front of a real ApiServer; compared per operation: method, path, JSON body (key order ignored; the client's private `toxics` key of a proxy body, which the server ignores, is dropped), call result (error / exit status), and the server state read by raw GET afterwards",
        "Client.Populate and Version, text output of the CLI (formatting), and names that need URL escaping are not modelled",
    ],
}


_E3_ASSUME = [
    "Go channel/select/WaitGroup semantics and testing/synctest's virtual clock; the network of goroutines of a link is confluent except for selects with two ready cases, which the model flags and the engine then stops comparing (episodes stopped are counted)",
    "toxicity is 0 or 1 and random draws are constant in E3 (the order in which concurrently restarted stubs draw is not deterministic)",
    "API calls that cannot complete at once (blocked receiver, pending timer) are skipped in E3: they are outside C02's proviso, and a goroutine waiting for the collection mutex is not durably blocked for synctest",
    "real TCP sockets, io.Copy's 32 KiB buffer and half-close behaviour are environment here (engine E6)",
]


def _link(prop, theorems, mode, scope, extra=()):
    args = ["-props", prop]
    if mode:
        args += ["-mode", mode]
    return {
        "lean_modules": ["Toxi.Proofs." + prop],
        "theorems": theorems,
        "engines": [{"engine": "e3", "gotest": True, "args": args, "tag": prop}],
        "needs_gotest": True,
        "model_scope": scope,
        "assumptions": _E3_ASSUME + list(extra),
    }


PROPS["C01"] = _link("C01", ["Toxi.Link.C01_stage_conserves", "Toxi.Link.C01_inactive_conserves", "Toxi.Link.C01_new_link",
                             "Toxi.Toxic.step_conserves", "Toxi.Toxic.slicerSend_ok", "Toxi.Toxic.bwLoop_ok", "Toxi.Stream.C18_fifo",
                             "Toxi.Link.C01_move_conserves", "Toxi.Link.C01_settle_conserves", "Toxi.Link.C01_prefix", "Toxi.Link.LInv_new",
                             "Toxi.Link.C01_quiescent_complete", "Toxi.Link.idle_can_receive",
                             "Toxi.Link.sinkMove_inv", "Toxi.Link.stageMove_inv", "Toxi.Link.bufferMove_inv", "Toxi.Link.sourceMove_inv",
                             "Toxi.Toxic.input_ok", "Toxi.Toxic.taken_ok", "Toxi.Toxic.timer_ok"],
                     "preserving",
                     "link.go (NewToxicLink, Start, read, write), toxics/*.go of the data-preserving toxics, stream/io_chan.go; per-connection independence is exercised with up to 3 concurrent links")
PROPS["C02"] = _link("C02", ["Toxi.Link.C02_interrupt_keeps", "Toxi.Link.C02_restart_empty", "Toxi.Link.C02_rmLoop_takes_oldest",
                             "Toxi.Link.C02_splice_when_empty", "Toxi.Link.C02_tmp_only_giveup", "Toxi.Toxic.step_conserves"],
                     "",
                     "link.go AddToxic / UpdateToxic / RemoveToxic (every blocking point, incl. the early returns and the 5 s give-up), toxic_collection.go chainAdd/Update/Remove, ResetToxics, StartLink, RemoveLink")
PROPS["C04"] = _link("C04", ["Toxi.Link.C04_new_link_aligned", "Toxi.Link.C04_add_chain", "Toxi.Link.C04_update_chain",
                             "Toxi.Link.C04_remove_chain", "Toxi.Link.C04_frame_links", "Toxi.Link.C04_update_restarts_one"],
                     "",
                     "toxic_collection.go (chain, Index renumbering, findToxicByName), link.go stubs vs chain alignment")
PROPS["C01"]["lean_modules"] = PROPS["C01"]["lean_modules"] + ["Toxi.Proofs.Lemmas.Pipeline", "Toxi.Proofs.Lemmas.Quiescent", "Toxi.Proofs.Lemmas.Graceful"]
PROPS["C01"]["theorems"] += ["Toxi.Link.C15_move_graceful", "Toxi.Link.C15_settle_graceful", "Toxi.Link.C15_graceful_end", "Toxi.Link.GInv_new"]
# C02: the whole-link invariant across AddToxic / UpdateToxic / RemoveToxic (Proofs/Lemmas/Reconf.lean)
PROPS["C02"]["lean_modules"] = PROPS["C02"]["lean_modules"] + ["Toxi.Proofs.Lemmas.Reconf"]
PROPS["C02"]["theorems"] += ["Toxi.Link.C02_anymove_conserves", "Toxi.Link.C02_move_conserves", "Toxi.Link.C02_exec", "Toxi.Link.C02_complete", "Toxi.Link.C02_prefix",
                             "Toxi.Link.RInv_exec", "Toxi.Link.RInv_of_LInv", "Toxi.Link.LInv_of_RInv",
                             "Toxi.Link.r_handoff", "Toxi.Link.r_stageMove", "Toxi.Link.r_sinkMove", "Toxi.Link.r_bufferMove", "Toxi.Link.r_sourceMove",
                             "Toxi.Link.r_ctl_add", "Toxi.Link.r_ctl_upd", "Toxi.Link.r_ctl_rmIntr", "Toxi.Link.r_ctl_rmLoop", "Toxi.Link.r_ctl_rmDrain",
                             "Toxi.Link.r_beginAdd", "Toxi.Link.r_beginUpdate", "Toxi.Link.r_beginRemove",
                             "Toxi.Toxic.interrupt_ok", "Toxi.Link.fire_interrupt", "Toxi.Link.Ex.exec7"]
# C01/C02: the in-order-part invariant for every toxic and every state (Proofs/Lemmas/Order.lean)
for _p in ("C01", "C02"):
    PROPS[_p]["lean_modules"] = PROPS[_p]["lean_modules"] + ["Toxi.Proofs.Lemmas.Order", "Toxi.Proofs.Lemmas.Collect"]
    PROPS[_p]["theorems"] += ["Toxi.Link.C02_reach", "Toxi.Link.cinv_reach", "Toxi.Link.cinv_move", "Toxi.Link.C02_collection",
                              "Toxi.Link.O_anymove", "Toxi.Link.anyMove_of_move", "Toxi.Link.C01_anymove_conserves"]
    PROPS[_p]["theorems"] += ["Toxi.Link.C02_in_order", "Toxi.Link.O_move", "Toxi.Link.OInv_exec", "Toxi.Link.OInv_new", "Toxi.Toxic.step_sub",
                              "Toxi.Link.o_stageMove", "Toxi.Link.o_sinkMove", "Toxi.Link.o_bufferMove", "Toxi.Link.o_sourceMove", "Toxi.Link.o_ctlMove"]
# C02/C04 at collection level, no loss + alignment (Proofs/Lemmas/CollectR.lean)
for _p in ("C02", "C04"):
    PROPS[_p]["lean_modules"] = PROPS[_p]["lean_modules"] + ["Toxi.Proofs.Lemmas.CollectR"]
    PROPS[_p]["theorems"] += ["Toxi.Link.C02_reachR", "Toxi.Link.rcoll_reach", "Toxi.Link.rcoll_move"]
# C04: alignment of the stubs with the chain along every execution (Proofs/Lemmas/Aligned.lean)
PROPS["C04"]["lean_modules"] = PROPS["C04"]["lean_modules"] + ["Toxi.Proofs.Lemmas.Aligned"]
PROPS["C04"]["theorems"] += ["Toxi.Link.C04_exec", "Toxi.Link.t_exec", "Toxi.Link.t_move", "Toxi.Link.t_anymove", "Toxi.Link.t_ctlMove", "Toxi.Link.t_new",
                             "Toxi.Link.same_stageMove", "Toxi.Link.same_sinkMove", "Toxi.Link.same_bufferMove", "Toxi.Link.same_sourceMove"]
# C16: linearizability theorem for the handlers that hold their lock across the effect (Proofs/Lemmas/Commit.lean)
def _c16_extra():
    PROPS["C16"]["lean_modules"] = PROPS["C16"]["lean_modules"] + ["Toxi.Proofs.Lemmas.ToxicComm", "Toxi.Proofs.Lemmas.Commit"]
    PROPS["C16"]["theorems"] = PROPS["C16"]["theorems"] + ["Toxi.Conc.C16_commit_order", "Toxi.Conc.C16_linearizable", "Toxi.Conc.advance_abs",
                                                           "Toxi.Conc.toxic_commutes", "Toxi.Conc.via_comm", "Toxi.Conc.step_toxic_via",
                                                           "Toxi.Conc.replacing_block", "Toxi.Conc.stopFirst_spec", "Toxi.Conc.abs_other"]
# C15: the graceful end of a connection (Proofs/Lemmas/Graceful.lean)
def _c15_extra():
    PROPS["C15"]["lean_modules"] = PROPS["C15"]["lean_modules"] + ["Toxi.Proofs.Lemmas.Graceful", "Toxi.Proofs.Lemmas.Rest", "Toxi.Proofs.Lemmas.Census"]
    PROPS["C15"]["theorems"] = PROPS["C15"]["theorems"] + ["Toxi.Link.C15_move_graceful", "Toxi.Link.C15_settle_graceful",
                                                           "Toxi.Link.C15_graceful_end", "Toxi.Link.GInv_new", "Toxi.Link.GInv_env",
                                                           "Toxi.Link.C15_move_shape", "Toxi.Link.C15_move_sq", "Toxi.Link.C15_anymove_shape", "Toxi.Link.C15_anymove_sq",
                                                           "Toxi.Link.C15_anymove_graceful", "Toxi.Link.C15_at_rest",
                                                           "Toxi.Link.C15_exec", "Toxi.Link.C15_nothing_left", "Toxi.Toxic.step_plain",
                                                           "Toxi.Link.EInv_new", "Toxi.Link.ExR.exec3", "Toxi.Link.C15_census"]
PROPS["C14"]["engines"] = PROPS["C14"]["engines"] + [{"engine": "e3", "gotest": True, "args": ["-props", "C14"], "tag": "C14link"}]
PROPS["C14"]["model_scope"] += "; toxic_collection.go UpdateToxicJson -> chainUpdateToxic -> link.UpdateToxic (restart with a fresh draw) via the link model (E3)"
PROPS["C11"]["engines"] = PROPS["C11"]["engines"] + [{"engine": "e3", "gotest": True, "args": ["-props", "C11", "-mode", "all"], "tag": "C11link"}]
PROPS["C10"]["engines"] = PROPS["C10"]["engines"] + [{"engine": "e3", "gotest": True, "args": ["-props", "C10", "-mode", "all"], "tag": "C10link"}]
# C08 at link level: the latency toxic behind its 1024-entry buffer, on connections made before and after updates
PROPS["C08"]["engines"] = PROPS["C08"]["engines"] + [{"engine": "e3", "gotest": True, "args": ["-props", "C08", "-mode", "preserving"], "tag": "C08link"}]
PROPS["C08"]["model_scope"] += "; link.go NewToxicLink (input channel sized by the chain entry's BufferSize) and toxic_collection.go UpdateToxicJson via the link model (E3: the same burst on a connection made before and one made after the change)"


_E6_ASSUME = [
    "kernel TCP on loopback: a closed listener refuses, Close wakes blocked I/O, SO_LINGER 0 + Close sends RST; the model ends at 'the proxy closed the socket' / 'listener closed' and E6 observes the rest on real sockets",
    "E6 runs in real time: after every operation it waits (up to 3 s) until the implementation shows the model's prediction; how much a source that the proxy cut off had read is timing dependent and compared as a range",
    "goroutines are attributed to roles by their stack frames (ToxicLink.read / ToxicStub.Run / ToxicLink.write / Proxy.server+freeBlocker)",
    "prometheus CounterVec.Add and float64 exactness below 2^53 bytes",
]


def _conn(prop, modules, theorems, scope):
    return {
        "lean_modules": modules,
        "theorems": theorems,
        "engines": [{"engine": "e6", "args": ["-props", prop], "tag": prop}],
        "model_scope": scope,
        "assumptions": _E6_ASSUME,
    }


PROPS["C03"] = _conn("C03", ["Toxi.Proofs.C03"],
                     ["Toxi.Proxy.C03_down", "Toxi.Proxy.C03_no_accept_after_close", "Toxi.Proxy.C03_no_orphan", "Toxi.Proxy.inv_step", "Toxi.Proxy.inv_run"],
                     "proxy.go: start, stop, server (accept loop), freeBlocker as interleaved goroutines (Model/Proxy.lean, order of their steps tied by facts); Update/Differs, proxy_collection.go Remove/AddOrReplace through E4/E6")
PROPS["C15"] = _conn("C15", ["Toxi.Proofs.C15"],
                     ["Toxi.Link.C15_closed_stub_drains", "Toxi.Link.C15_census_zero"],
                     "link.go read/write goroutines, toxics/toxic.go Run/Close (drain), proxy.go RemoveConnection, toxic_collection.go RemoveLink: Model/Link.lean + Model/Conn.lean census")
PROPS["C20"] = _conn("C20", ["Toxi.Proofs.C20"],
                     ["Toxi.Conn.C20_monotone", "Toxi.Conn.C20_once", "Toxi.Conn.C20_exact", "Toxi.Conn.C20_labels", "Toxi.Conn.countRS_comm"],
                     "link.go read/write counter updates, metrics.go, collectors/proxy.go label set: Model/Conn.lean countR/countS")

# C03 / C15 / C20 at the level of whole connections (Proofs/Lemmas/Frame.lean, Stopped.lean, Counters.lean)
for _p in ("C03", "C15"):
    PROPS[_p]["lean_modules"] = PROPS[_p]["lean_modules"] + ["Toxi.Proofs.Lemmas.Stopped"]
    PROPS[_p]["theorems"] = PROPS[_p]["theorems"] + ["Toxi.Link.C03_stop_leaves_nothing", "Toxi.Link.C03_stopped_link_ends",
                                                     "Toxi.Link.killed_exec", "Toxi.Link.stop_links", "Toxi.Link.frame_anymove"]
PROPS["C20"]["lean_modules"] = PROPS["C20"]["lean_modules"] + ["Toxi.Proofs.Lemmas.Counters"]
PROPS["C20"]["theorems"] = PROPS["C20"]["theorems"] + ["Toxi.Link.C20_graceful_exact", "Toxi.Link.ginv_exec", "Toxi.Link.frame_anymove",
                                                       "Toxi.Link.keep_sinkMove", "Toxi.Link.keep_sourceMove", "Toxi.Link.ExC.exec3"]

# C12 at link level: a slicer updated on live connections (the real UpdateToxicJson copies the toxic object)
PROPS["C12"]["engines"] = PROPS["C12"]["engines"] + [{"engine": "e3", "gotest": True, "args": ["-props", "C12", "-mode", "preserving"], "tag": "C12link"}]
PROPS["C12"]["needs_gotest"] = True
# C06 at the links: a rejected toxic update must not change how connections are treated (E3's
# updbad histories); C15 at the links: a link whose sender has ended and whose receiver accepts ends
PROPS["C06"]["engines"] = PROPS["C06"]["engines"] + [{"engine": "e3", "gotest": True, "args": ["-props", "C06", "-mode", "all"], "tag": "C06link"}]
PROPS["C06"]["needs_gotest"] = True
PROPS["C15"]["engines"] = PROPS["C15"]["engines"] + [{"engine": "e3", "gotest": True, "args": ["-props", "C15", "-mode", "all"], "tag": "C15link"}]
PROPS["C15"]["needs_gotest"] = True
# C03 at the registry: Differs as a relation on address spellings decides whether an update re-binds (E4)
PROPS["C03"]["engines"] = PROPS["C03"]["engines"] + [{"engine": "e4", "args": ["-props", "C03"], "tag": "C03api"}]
# C10 / C11 / C13 at the level of whole connections (Proofs/Lemmas/Blackhole.lean, Limit.lean)
PROPS["C10"]["lean_modules"] = PROPS["C10"]["lean_modules"] + ["Toxi.Proofs.Lemmas.Blackhole"]
PROPS["C10"]["theorems"] = PROPS["C10"]["theorems"] + ["Toxi.Link.C10_link_blackhole", "Toxi.Link.link_blackhole", "Toxi.Link.d_anymove",
                                                       "Toxi.Link.timeout_dry", "Toxi.Link.DInv_new", "Toxi.Link.ExB.b1_exec"]
PROPS["C13"]["lean_modules"] = PROPS["C13"]["lean_modules"] + ["Toxi.Proofs.Lemmas.Blackhole"]
PROPS["C13"]["theorems"] = PROPS["C13"]["theorems"] + ["Toxi.Link.C13_link_reset_no_data", "Toxi.Link.link_blackhole"]
PROPS["C11"]["lean_modules"] = PROPS["C11"]["lean_modules"] + ["Toxi.Proofs.Lemmas.Limit"]
PROPS["C11"]["theorems"] = PROPS["C11"]["theorems"] + ["Toxi.Link.C11_link_limit", "Toxi.Link.n_anymove", "Toxi.Link.n_ack", "Toxi.Link.n_fire",
                                                       "Toxi.Link.lim_step", "Toxi.Link.blen_fire", "Toxi.Link.wsum_modify", "Toxi.Link.NInv_new",
                                                       "Toxi.Link.ExN.n1_exec"]
PROPS["C19"]["theorems"] = PROPS["C19"]["theorems"] + ["Toxi.Client.C19_handle_reads_back"]

# ---- regenerated facts: every property also depends on the ties of the code it models
_TIES = {
    "C01": ["tie_no_receiver_writes", "tie_link_start", "tie_link_read", "tie_link_write", "tie_run", "tie_chanreader", "tie_toxics"],
    "C02": ["tie_add", "tie_update_link", "tie_remove", "tie_chain_ops", "tie_interrupt", "tie_run", "tie_toxics"],
    "C03": ["tie_stop", "tie_freeBlocker", "tie_server", "tie_start", "tie_update", "tie_collection"],
    "C04": ["tie_chain_ops", "tie_add", "tie_update_link", "tie_remove", "tie_toxics"],
    "C05": ["tie_routes", "tie_routeMethods", "tie_browser_middleware", "tie_errors", "tie_defaults", "tie_toxics", "tie_toxic_json", "tie_collection"],
    "C06": ["tie_errors", "tie_toxic_json", "tie_collection", "tie_update"],
    "C07": ["tie_server", "tie_toxics", "tie_routes"],
    "C08": ["tie_toxics", "tie_run"], "C09": ["tie_toxics"], "C10": ["tie_toxics"], "C11": ["tie_toxics"],
    "C12": ["tie_toxics"], "C13": ["tie_toxics", "tie_link_start"],
    "C14": ["tie_run", "tie_toxic_json", "tie_chain_ops", "tie_update_link"],
    "C15": ["tie_stub_close", "tie_link_read", "tie_link_write", "tie_interrupt"],
    "C16": ["tie_collection", "tie_toxic_json", "tie_update", "tie_routes"],
    "C17": ["tie_collection", "tie_update", "tie_routes"],
    "C19": ["tie_client", "tie_cli", "tie_routes"],
    "C18": ["tie_chanreader"],
    "C20": ["tie_link_read", "tie_link_write"],
}
for _p, _ts in _TIES.items():
    if _p in PROPS:
        PROPS[_p]["lean_modules"] = list(PROPS[_p]["lean_modules"]) + ["Toxi.Ties"]
        PROPS[_p]["theorems"] = list(PROPS[_p]["theorems"]) + ["Toxi.Ties." + t for t in _ts]
_c15_extra()
_c16_extra()

# C16, deadlock clause: the block model's locks (Progress.lean) and the implementation's lock order
# (LockOrder.lean over the regenerated Generated.lockOrder)
PROPS["C16"]["lean_modules"] = PROPS["C16"]["lean_modules"] + ["Toxi.Proofs.Lemmas.Progress", "Toxi.Proofs.Lemmas.LockOrder"]
PROPS["C16"]["theorems"] = PROPS["C16"]["theorems"] + ["Toxi.Conc." + t for t in [
    "advance_lockstep", "lockinv_set", "lockinv_sched", "C16_no_deadlock", "C16_all_finish", "C16_never_stuck"]] + [
    "Toxi.LockOrder.ranked_no_deadlock", "Toxi.LockOrder.classes_no_deadlock", "Toxi.LockOrder.C16_lock_order_no_deadlock",
    "Toxi.Ties.tie_lock_order"]
PROPS["C16"]["assumptions"] = PROPS["C16"]["assumptions"] + [
    "lock order: tools/factgen's relation Generated.lockOrder (typed AST of package toxiproxy: a Lock/RLock, or proxy.tomb.Wait(), reached - directly or through statically resolved calls inside the package, goroutines joined by a WaitGroup included - while an earlier Lock of the same function is not yet released) over-approximates the nesting at run time; interface calls into package toxics take no lock of package toxiproxy; waiting on channels (links' hand-over, Proxy.started) is outside the lock-order theorem and is exercised by E3/E7"]
# C15 at the registry: refused starts leave no goroutine of the proxy's life cycle (E4)
PROPS["C15"]["engines"] = PROPS["C15"]["engines"] + [{"engine": "e4", "args": ["-props", "C15"], "tag": "C15api"}]

# the start hand-shake (Start.lean): a refused start leaves no goroutine (C15), an accepted one serves (C03)
PROPS["C15"]["lean_modules"] = PROPS["C15"]["lean_modules"] + ["Toxi.Proofs.Lemmas.Start"]
PROPS["C15"]["theorems"] = PROPS["C15"]["theorems"] + ["Toxi.Start.C15_refused_start_leaves_nothing", "Toxi.Start.inv_step", "Toxi.Ties.tie_server_start"]
PROPS["C03"]["lean_modules"] = PROPS["C03"]["lean_modules"] + ["Toxi.Proofs.Lemmas.Start"]
PROPS["C03"]["theorems"] = PROPS["C03"]["theorems"] + ["Toxi.Start.C03_started_serves", "Toxi.Start.start_progress", "Toxi.Ties.tie_server_start"]
# reset at the links (ResetLink.lean)
PROPS["C17"]["lean_modules"] = PROPS["C17"]["lean_modules"] + ["Toxi.Proofs.Lemmas.ResetLink"]
PROPS["C17"]["theorems"] = PROPS["C17"]["theorems"] + ["Toxi.Link.C17_reset_link"]

# C09 at the links: order and content behind a bandwidth toxic that releases instalments (E3)
PROPS["C09"]["engines"] = PROPS["C09"]["engines"] + [{"engine": "e3", "gotest": True, "args": ["-props", "C09", "-mode", "preserving"], "tag": "C09link"}]
PROPS["C09"]["needs_gotest"] = True
PROPS["C19"]["theorems"] = PROPS["C19"]["theorems"] + ["Toxi.Client.C19_populate_decodes", "Toxi.Client.C19_populate_is_api"]
# the registry of a proxy's sockets (C03_all_closed over the lifecycle model with linkEnd; tie_registry)
PROPS["C03"]["theorems"] = PROPS["C03"]["theorems"] + ["Toxi.Proxy.C03_all_closed", "Toxi.Proxy.ever_step", "Toxi.Ties.tie_registry"]
# C13 on real sockets: reset_peer ends the connection with a TCP reset at both peers (E6)
PROPS["C13"]["engines"] = PROPS["C13"]["engines"] + [{"engine": "e6", "args": ["-props", "C13"], "tag": "C13sock"}]
# every toxic of every reachable registry has a stream ParseDirection accepts (StreamOK.lean)
PROPS["C05"]["lean_modules"] = PROPS["C05"]["lean_modules"] + ["Toxi.Proofs.Lemmas.StreamOK"]
PROPS["C05"]["theorems"] = PROPS["C05"]["theorems"] + ["Toxi.Api." + t for t in ["C05_reachable_streams", "sok_step", "parseDirection_domain"]]
