"""Registry: for every claimed property, the Lean modules and theorems that decide it and
the correspondence engines that tie the model to /repo."""

PROPS = {
    "C18": {
        "lean_modules": ["Toxi.Proofs.C18"],
        "theorems": [
            "Toxi.Stream.C18_fifo",
            "Toxi.Stream.C18_prefix",
            "Toxi.Stream.C18_eof",
            "Toxi.Stream.C18_eof_sticky",
            "Toxi.Stream.C18_closed_progress",
            "Toxi.Stream.C18_interrupt_lossless",
            "Toxi.Stream.C18_legacy_fails",
        ],
        "engines": [{"engine": "e1"}],
        "model_scope": "stream/io_chan.go: ChanWriter.Write/Close, ChanReader.Read (every branch, both selects); channel modelled as an unbounded FIFO of chunks",
        "assumptions": [
            "Go channel FIFO order and select semantics; copy() semantics",
            "channel capacity only restricts when a write is enabled (the model's queue is unbounded)",
            "the writer-does-not-retain-the-buffer clause is exercised by E1 (the harness scribbles over the caller's buffer after every Write) but is not a separate theorem: the model's chunks are values",
        ],
    },
}
