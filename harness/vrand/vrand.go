// Package vrand is the scripted stand-in for math/rand that the build overlay substitutes
// in toxiproxy's toxics package (same function names as the ones toxiproxy calls).
// The harness loads the results; the functions keep math/rand's panics on bad bounds.
package vrand

import (
	mrand "math/rand"
	"sync"
)

// Generators of their own (rand.New(rand.NewSource(seed))) are not scripted: they are what
// math/rand makes of the seed the code gives them.
type (
	Rand   = mrand.Rand
	Source = mrand.Source
)

func NewSource(seed int64) mrand.Source { return mrand.NewSource(seed) }
func New(src mrand.Source) *mrand.Rand  { return mrand.New(src) }

var (
	mu     sync.Mutex
	f32    float32
	draws  []int64
	Calls  int // number of Intn/Int63n calls so far
	FCalls int
)

// SetFloat sets what Float32 returns from now on.
func SetFloat(f float32) { mu.Lock(); f32 = f; seeded = false; mu.Unlock() }

// Push appends results for the next Intn/Int63n calls (each is reduced modulo the bound).
func Push(xs ...int64) { mu.Lock(); draws = append(draws, xs...); mu.Unlock() }

// Reset clears all scripted state.
func Reset() {
	mu.Lock()
	draws = nil
	seeded = false
	f32 = 0
	Calls = 0
	FCalls = 0
	mu.Unlock()
}

func Pending() int { mu.Lock(); defer mu.Unlock(); return len(draws) }

func next(n int64) int64 {
	mu.Lock()
	defer mu.Unlock()
	Calls++
	if len(draws) == 0 && seeded {
		state += 0x9e3779b97f4a7c15
		z := state
		z = (z ^ (z >> 30)) * 0xbf58476d1ce4e5b9
		z = (z ^ (z >> 27)) * 0x94d049bb133111eb
		z ^= z >> 31
		return int64(z>>1) % n
	}
	if len(draws) == 0 {
		return 0
	}
	d := draws[0]
	draws = draws[1:]
	d %= n
	if d < 0 {
		d += n
	}
	return d
}

// SetSeeded makes Float32 return an independent pseudo-random sequence from now on (for the
// independence probe of C14); Reset / SetFloat go back to the scripted value.
func SetSeeded(seed uint64) { mu.Lock(); seeded = true; state = seed; mu.Unlock() }

var (
	seeded bool
	state  uint64
)

func Float32() float32 {
	mu.Lock()
	defer mu.Unlock()
	FCalls++
	if seeded {
		// splitmix64
		state += 0x9e3779b97f4a7c15
		z := state
		z = (z ^ (z >> 30)) * 0xbf58476d1ce4e5b9
		z = (z ^ (z >> 27)) * 0x94d049bb133111eb
		z ^= z >> 31
		return float32(z>>40) / float32(1<<24)
	}
	return f32
}

func Int63n(n int64) int64 {
	if n <= 0 {
		panic("invalid argument to Int63n")
	}
	return next(n)
}

func Intn(n int) int {
	if n <= 0 {
		panic("invalid argument to Intn")
	}
	return int(next(int64(n)))
}
