package e1

import (
	"fmt"

	"verifharness/report"
	"verifharness/rng"
	"verifharness/run"
)

// Corpus: minimised past failures; they run first.
var Corpus = [][]string{
	// C18 regression (fixed): remainder shorter than the read buffer + a queued chunk.
	{"W8", "W3", "R3:a:0", "R3:a:0", "R3:a:0", "R3:a:0", "C", "R3:a:0", "R3:a:0"},
	// an interrupt pending while a remainder is buffered: the remainder must survive
	{"W8", "R3:a:0", "R3:a:1", "R1:a:1", "R5:a:0", "C", "R3:a:0"},
}

func alphabet(tier string) []string {
	a := []string{"W1", "W2", "W3", "C", "R2:a:1", "R1:a:1"}
	for _, m := range []int{1, 2, 3, 5} {
		a = append(a, fmt.Sprintf("R%d:n:0", m), fmt.Sprintf("R%d:a:0", m))
	}
	if tier == "thorough" {
		a = append(a, "W5", "R0:a:0", "R2:1:0")
	}
	return a
}

// Sweep runs the corpus, then all sequences over the alphabet up to a length, then random
// long episodes with large sizes.  It stops at the first failure and minimises it.
func Sweep(e *Engine, tier string, seed uint64, res *report.Result) {
	res.Rule = "E1: all operation sequences over the alphabet (writes of 1-3 bytes, close, reads with buffers 1,2,3,5 with the pending chunks visible or not, an interrupted read) up to the stated length, then random episodes (writes up to 64 KiB, read buffers 0..64 KiB, channel capacity 4096). distinct_nontrivial counts distinct (ops, read-shape) pairs in which at least one read returned fewer bytes than its buffer or was interrupted."
	report1 := func(ops []string, f *report.Failure) {
		g := run.Minimize(e, ops, f)
		res.Failures = append(res.Failures, *g)
		if g.Kind == "disagreement" {
			search(e, g.Ops, tier, seed, res)
		}
	}
	for _, c := range Corpus {
		if f := e.Run(c, res); f != nil {
			report1(c, f)
			return
		}
	}
	maxLen := 4
	if tier == "thorough" {
		maxLen = 5
	}
	alpha := alphabet(tier)
	res.Notes = append(res.Notes, fmt.Sprintf("exhaustive over %d symbols up to length %d", len(alpha), maxLen))
	seq := make([]string, 0, maxLen)
	var rec func(closed bool) bool
	rec = func(closed bool) bool {
		if len(seq) > 0 {
			if f := e.Run(seq, res); f != nil {
				report1(append([]string(nil), seq...), f)
				return false
			}
		}
		if len(seq) == maxLen {
			return true
		}
		for _, s := range alpha {
			if closed && (s[0] == 'W' || s == "C") {
				continue
			}
			seq = append(seq, s)
			ok := rec(closed || s == "C")
			seq = seq[:len(seq)-1]
			if !ok {
				return false
			}
		}
		return true
	}
	if !rec(false) {
		return
	}
	res.Exhaustive = true
	// random long episodes
	r := rng.New(seed)
	n := 300
	if tier == "thorough" {
		n = 5000
	}
	for k := 0; k < n; k++ {
		var ops []string
		L := 5 + r.Intn(60)
		closed := false
		big := r.Chance(1, 4)
		for i := 0; i < L; i++ {
			switch x := r.Intn(10); {
			case x < 4 && !closed:
				sz := r.Intn(12)
				if big {
					sz = r.Pick(1, 100, 4096, 32768, 65536, 7, 33000)
				}
				ops = append(ops, fmt.Sprintf("W%d", sz))
			case x == 4 && !closed && r.Chance(1, 4):
				ops = append(ops, "C")
				closed = true
			default:
				m := r.Intn(9)
				if big {
					m = r.Pick(1, 3, 512, 32768, 65536, 4095, 100)
				}
				p := []string{"n", "1", "a"}[r.Intn(3)]
				i := 0
				if r.Chance(1, 6) {
					i = 1
				}
				ops = append(ops, fmt.Sprintf("R%d:%s:%d", m, p, i))
			}
		}
		if f := e.Run(ops, res); f != nil {
			report1(ops, f)
			return
		}
	}
}

// search looks for an input on which the implementation itself breaks C18 (model-free
// oracle only), starting from the minimal disagreeing operation list and its extensions.
func search(e *Engine, base []string, tier string, seed uint64, res *report.Result) {
	e.OracleOnly = true
	defer func() { e.OracleOnly = false }()
	scratch := report.New("search", tier, seed)
	alpha := alphabet("thorough")
	found := func(ops []string, f *report.Failure) {
		g := run.Minimize(e, ops, f)
		res.Failures = append(res.Failures, *g)
		res.Notes = append(res.Notes, "search: failing input found from the disagreeing operation list")
	}
	var ext func(seq []string, depth int) bool
	ext = func(seq []string, depth int) bool {
		if f := e.Run(seq, scratch); f != nil && f.Kind != "disagreement" {
			found(append([]string(nil), seq...), f)
			return true
		}
		if depth == 0 {
			return false
		}
		for _, s := range alpha {
			if ext(append(append([]string(nil), seq...), s), depth-1) {
				return true
			}
		}
		return false
	}
	for cut := len(base); cut >= 1; cut-- {
		if ext(base[:cut], 3) {
			return
		}
	}
	// then the generic sweep, oracle only
	sub := report.New("search", tier, seed)
	Sweep(e, "quick", seed+7, sub)
	for _, f := range sub.Failures {
		if f.Kind != "disagreement" {
			res.Failures = append(res.Failures, f)
			return
		}
	}
	res.Notes = append(res.Notes, fmt.Sprintf("search: no failing input in %d extension/sweep episodes", scratch.Episodes+sub.Episodes))
}
