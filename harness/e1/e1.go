// Package e1 is correspondence engine E1: stream.ChanWriter/ChanReader (real code, called
// in-process) against the Lean pipe model, in lock-step, plus the direct FIFO oracle of C18.
//
// Abstract operations:
//
//	W<n>          write n bytes (content: a running counter, so reorderings show)
//	C             close the writer
//	R<m>:<p>:<i>  Read with an m-byte buffer; p = n|1|a: push none / one / all of the pending
//	              writes into the real channel first (this decides what the optional refill
//	              sees); i = 1: make the interrupt channel ready if the read would block
//
// A write is "pending" until it is pushed: the model's queue is pushed ++ pending; a read
// whose optional refill must take its `default` branch although a chunk was written is
// realised by not having pushed that chunk yet.
package e1

import (
	"bytes"
	"encoding/hex"
	"fmt"
	"io"
	"strconv"
	"strings"
	"time"

	"github.com/Shopify/toxiproxy/v2/stream"

	"verifharness/drv"
	"verifharness/report"
	"verifharness/run"
)

type Engine struct {
	D    *drv.Driver
	Cap  int
	seen run.Seen
	// OracleOnly: ignore disagreements with the model (used by the search for a failing
	// input after a tie broke: only the model-free oracle of C18 decides).
	OracleOnly bool
}

func New(d *drv.Driver) *Engine { return &Engine{D: d, Cap: 4096, seen: run.Seen{}} }

func (e *Engine) Name() string { return "E1" }

func hx(b []byte) string {
	if len(b) == 0 {
		return "-"
	}
	return hex.EncodeToString(b)
}

type impl struct {
	ch           chan *stream.StreamChunk
	w            *stream.ChanWriter
	r            *stream.ChanReader
	intr         chan struct{}
	pending      [][]byte
	pendingClose bool
	closedPushed bool
}

func (im *impl) pushOne() bool {
	if len(im.pending) > 0 {
		buf := im.pending[0]
		im.pending = im.pending[1:]
		caller := append([]byte(nil), buf...) // (nil for a zero-length write: Write(nil) is an empty write like any other)
		im.w.Write(caller)
		for i := range caller { // the writer must not retain the caller's buffer
			caller[i] = 0xEE
		}
		return true
	}
	if im.pendingClose && !im.closedPushed {
		im.w.Close()
		im.closedPushed = true
		return true
	}
	return false
}

type readRes struct {
	n   int
	err error
	buf []byte
}

func errKind(err error) string {
	switch err {
	case nil:
		return "ok"
	case io.EOF:
		return "eof"
	case stream.ErrInterrupted:
		return "intr"
	}
	return "other:" + err.Error()
}

func (e *Engine) Run(ops []string, res *report.Result) *report.Failure {
	e.D.Reset()
	im := &impl{ch: make(chan *stream.StreamChunk, e.Cap), intr: make(chan struct{}, 1)}
	im.w = stream.NewChanWriter(im.ch)
	im.r = stream.NewChanReader(im.ch)
	im.r.SetInterrupt(im.intr)
	var written, returned []byte
	ctr := byte(1)
	sawEOF := false
	closed := false
	nontrivial := false
	var shape []string
	fail := func(at int, kind, prop, model, implS, what string) *report.Failure {
		// signature: the class of failure, without the concrete bytes
		cls := what
		if k := strings.IndexAny(cls, "0123456789"); k > 0 {
			cls = strings.TrimSpace(cls[:k])
		}
		return &report.Failure{Kind: kind, Property: prop, Ops: append([]string(nil), ops...), At: at,
			Model: model, Impl: implS, What: what, Sig: "e1:" + kind + ":" + cls}
	}
	for i, op := range ops {
		res.Ops++
		switch {
		case op[0] == 'W':
			n, _ := strconv.Atoi(op[1:])
			if closed {
				return nil // illegal history (Go panics): not generated
			}
			data := make([]byte, n)
			for k := range data {
				data[k] = ctr
				ctr++
				if ctr == 0xEE {
					ctr = 1
				}
			}
			if r := e.D.Ask("w " + hx(data)); r != "ok" {
				return fail(i, "disagreement", "", r, "ok", "driver rejected write")
			}
			im.pending = append(im.pending, data)
			written = append(written, data...)
			res.Count("op:write")
		case op == "C":
			if closed {
				return nil
			}
			closed = true
			if r := e.D.Ask("c"); r != "ok" {
				return fail(i, "disagreement", "", r, "ok", "driver rejected close")
			}
			im.pendingClose = true
			res.Count("op:close")
		case op[0] == 'R':
			f := strings.Split(op[1:], ":")
			m, _ := strconv.Atoi(f[0])
			switch f[1] {
			case "a":
				for im.pushOne() {
				}
			case "1":
				im.pushOne()
			}
			wantIntr := f[2] == "1"
			bp := e.D.Ask("bp "+strconv.Itoa(m)) == "bp 1"
			vis := len(im.ch) > 0 || im.closedPushed
			intr := false
			if bp && !vis {
				if wantIntr {
					intr = true
				} else if im.pushOne() {
					vis = true
				} else {
					res.Count("read:skipped-would-block")
					continue // nothing left to push: the read would block for ever
				}
			}
			b2s := func(b bool) string {
				if b {
					return "1"
				}
				return "0"
			}
			model := e.D.Ask(fmt.Sprintf("r %d %s %s", m, b2s(vis), b2s(intr)))
			mf := strings.Fields(model)
			if len(mf) < 3 || mf[0] != "r" {
				return fail(i, "disagreement", "", model, "", "driver rejected read")
			}
			// an interrupt that is already pending when a Read that does not have to block is
			// entered (a remainder is buffered): the Read returns its data, nothing is lost
			// (on the blocking path with data visible both cases of the select are ready and Go
			// picks either: not generated)
			pend := wantIntr && !bp
			if intr || pend {
				im.intr <- struct{}{}
			}
			if pend {
				res.Count("read:interrupt-pending-on-entry")
			}
			done := make(chan readRes, 1)
			go func() {
				buf := make([]byte, m)
				n, err := im.r.Read(buf)
				done <- readRes{n, err, buf}
			}()
			var rr readRes
			select {
			case rr = <-done:
			case <-time.After(2 * time.Second):
				return fail(i, "hang", "C18", model, "read did not return within 2 s", "read blocks")
			}
			if intr || pend {
				select {
				case <-im.intr:
				default:
				}
			}
			if rr.n < 0 || rr.n > len(rr.buf) {
				// (io.Reader's contract; every caller slices its buffer with the count)
				return fail(i, "oracle", "C18", model, fmt.Sprintf("n=%d for a buffer of %d bytes", rr.n, len(rr.buf)),
					fmt.Sprintf("Read reported %d bytes for a buffer of %d bytes", rr.n, len(rr.buf)))
			}
			// also compare the number of chunks still queued (channel + not yet pushed)
			got := fmt.Sprintf("%s %s q=%d", errKind(rr.err), hx(rr.buf[:rr.n]), len(im.ch)+len(im.pending))
			want := mf[1] + " " + mf[2] + " " + mf[3]
			returned = append(returned, rr.buf[:rr.n]...)
			res.Count("read:" + errKind(rr.err))
			if bp {
				res.Count("path:blocking")
			} else if rr.n > 0 && rr.n < m {
				res.Count("path:refill-or-short")
			} else {
				res.Count("path:early")
			}
			// direct oracle of C18: model-free
			if !bytes.HasPrefix(written, returned) {
				return fail(i, "oracle", "C18", want, got,
					fmt.Sprintf("bytes read so far %s are not a prefix of bytes written %s", hx(returned), hx(written)))
			}
			if rr.err == io.EOF {
				if !closed || !bytes.Equal(written, returned) {
					return fail(i, "oracle", "C18", want, got,
						fmt.Sprintf("EOF after %d of %d bytes (writer closed: %v)", len(returned), len(written), closed))
				}
				sawEOF = true
			} else if sawEOF {
				return fail(i, "oracle", "C18", want, got, "data or success after EOF")
			}
			if rr.err != nil && rr.err != io.EOF && rr.err != stream.ErrInterrupted {
				return fail(i, "oracle", "C18", want, got, "unexpected error")
			}
			if got != want && !e.OracleOnly {
				return fail(i, "disagreement", "", want, got, "read result differs")
			}
			if rr.n > 0 && rr.n < m || intr {
				nontrivial = true
			}
			shape = append(shape, fmt.Sprintf("%d/%d/%s", m, rr.n, errKind(rr.err)))
		}
	}
	res.Episodes++
	if nontrivial && e.seen.Add(strings.Join(ops, " "), strings.Join(shape, " ")) {
		res.Distinct++
		res.AddSample(map[string]any{"ops": strings.Join(ops, " "), "reads(m/n/err)": strings.Join(shape, " "),
			"written": hx(written), "returned": hx(returned)}, 6)
	}
	return nil
}
