// Package drv runs the Lean model driver as a child process and talks the line protocol.
package drv

import (
	"bufio"
	"fmt"
	"io"
	"os"
	"os/exec"
	"strings"
)

type Driver struct {
	cmd  *exec.Cmd
	in   io.WriteCloser
	out  *bufio.Reader
	Sent int
}

func Start(path string, engine string) (*Driver, error) {
	cmd := exec.Command(path, engine)
	in, err := cmd.StdinPipe()
	if err != nil {
		return nil, err
	}
	out, err := cmd.StdoutPipe()
	if err != nil {
		return nil, err
	}
	cmd.Stderr = os.Stderr
	if err := cmd.Start(); err != nil {
		return nil, err
	}
	return &Driver{cmd: cmd, in: in, out: bufio.NewReaderSize(out, 1<<20)}, nil
}

// Ask sends one protocol line and returns the model's answer.
func (d *Driver) Ask(line string) string {
	d.Sent++
	if _, err := io.WriteString(d.in, line+"\n"); err != nil {
		panic(fmt.Sprintf("driver write: %v", err))
	}
	s, err := d.out.ReadString('\n')
	if err != nil {
		panic(fmt.Sprintf("driver read after %q: %v", line, err))
	}
	return strings.TrimRight(s, "\n")
}

func (d *Driver) Reset() {
	if r := d.Ask("reset"); r != "ok" {
		panic("driver reset: " + r)
	}
}

func (d *Driver) Close() {
	d.in.Close()
	d.cmd.Wait()
}
