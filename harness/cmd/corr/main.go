// corr runs one correspondence engine: the real toxiproxy code (in-process, built from
// /repo's working tree) against the Lean model driver, in lock-step.
package main

import (
	"bufio"
	"flag"
	"fmt"
	"github.com/rs/zerolog"
	"os"
	"strings"
	"time"

	"verifharness/drv"
	"verifharness/e1"
	"verifharness/e4"
	"verifharness/e5"
	"verifharness/e6"
	"verifharness/e7"
	"verifharness/e9"
	"verifharness/report"
	"verifharness/run"
)

func main() {
	engine := flag.String("engine", "", "e1|...")
	tier := flag.String("tier", "quick", "quick|thorough")
	seed := flag.Uint64("seed", 1, "PRNG seed (VERIF_SEED)")
	driver := flag.String("driver", "", "path of the Lean driver executable")
	out := flag.String("out", "", "result JSON")
	replay := flag.String("replay", "", "file with one abstract operation per line to replay")
	props := flag.String("props", "", "properties whose oracles are evaluated (comma separated; empty = all)")
	variant := flag.String("variant", "fixed", "model variant (legacy only for regression witnesses)")
	cliBin := flag.String("cli", "", "toxiproxy-cli binary built from /repo (engine e5)")
	serverBin := flag.String("server", "", "toxiproxy-server binary built from /repo (engine e9)")
	flag.Parse()
	zerolog.SetGlobalLevel(zerolog.Disabled) // the bandwidth toxic logs through the global logger
	res := report.New(*engine, *tier, *seed)
	t0 := time.Now()
	var eng run.Engine
	var sweep func()
	switch *engine {
	case "e1":
		d, err := drv.Start(*driver, "e1")
		if err != nil {
			fmt.Fprintln(os.Stderr, err)
			os.Exit(2)
		}
		defer d.Close()
		e := e1.New(d)
		eng = e
		sweep = func() { e1.Sweep(e, *tier, *seed, res); res.DriverLines = d.Sent }
	case "e4":
		d, err := drv.Start(*driver, "e4")
		if err != nil {
			fmt.Fprintln(os.Stderr, err)
			os.Exit(2)
		}
		defer d.Close()
		e := e4.New(d)
		defer e.Close()
		e.Props = *props
		e.Variant = *variant
		if *out != "" {
			e.CurFile = *out + ".cur"
			defer os.Remove(e.CurFile)
		}
		eng = e
		sweep = func() { e.Sweep(*tier, *seed, res); res.DriverLines = d.Sent }
	case "e5":
		d, err := drv.Start(*driver, "e5")
		if err != nil {
			fmt.Fprintln(os.Stderr, err)
			os.Exit(2)
		}
		defer d.Close()
		e := e5.New(d, *cliBin)
		defer e.Close()
		e.CliVariant = *variant
		if *out != "" {
			e.CurFile = *out + ".cur"
			defer os.Remove(e.CurFile)
		}
		eng = e
		sweep = func() { e5.Sweep(e, *tier, *seed, res); res.DriverLines = d.Sent }
	case "e6":
		d, err := drv.Start(*driver, "e6")
		if err != nil {
			fmt.Fprintln(os.Stderr, err)
			os.Exit(2)
		}
		defer d.Close()
		e := e6.New(d)
		e.Props = *props
		if *out != "" {
			e.CurFile = *out + ".cur"
			defer os.Remove(e.CurFile)
		}
		eng = e
		sweep = func() { e6.Sweep(e, *tier, *seed, res); res.DriverLines = d.Sent }
	case "e7":
		d, err := drv.Start(*driver, "e7")
		if err != nil {
			fmt.Fprintln(os.Stderr, err)
			os.Exit(2)
		}
		defer d.Close()
		e := e7.New(d)
		defer e.Close()
		if *replay != "" {
			// a replayed history races for real: repeat its concurrent part (different sleeps)
			e.Trials = 120
		}
		if *out != "" {
			e.CurFile = *out + ".cur"
			defer os.Remove(e.CurFile)
		}
		eng = e
		sweep = func() { e7.Sweep(e, *tier, *seed, res); res.DriverLines = d.Sent }
	case "e9":
		e := e9.New(*serverBin)
		defer e.Close()
		eng = e
		sweep = func() { e9.Sweep(e, *tier, *seed, res) }
	default:
		fmt.Fprintln(os.Stderr, "unknown engine")
		os.Exit(2)
	}
	if *replay != "" {
		ops := readOps(*replay)
		if f := eng.Run(ops, res); f != nil {
			res.Failures = append(res.Failures, *f)
		}
	} else {
		sweep()
	}
	res.WallS = time.Since(t0).Seconds()
	if *out != "" {
		if err := res.Write(*out); err != nil {
			fmt.Fprintln(os.Stderr, err)
			os.Exit(2)
		}
	}
	fmt.Printf("%s: episodes=%d ops=%d distinct=%d failures=%d wall=%.1fs\n", *engine, res.Episodes, res.Ops, res.Distinct, len(res.Failures), res.WallS)
	for _, f := range res.Failures {
		fmt.Printf("FAIL kind=%s property=%s at=%d ops=%s\n  model=%s\n  impl=%s\n  what=%s\n", f.Kind, f.Property, f.At, strings.Join(f.Ops, " "), f.Model, f.Impl, f.What)
	}
	if len(res.Failures) > 0 {
		os.Exit(1)
	}
}

func readOps(path string) []string {
	f, err := os.Open(path)
	if err != nil {
		fmt.Fprintln(os.Stderr, err)
		os.Exit(2)
	}
	defer f.Close()
	var ops []string
	sc := bufio.NewScanner(f)
	sc.Buffer(make([]byte, 1<<20), 1<<26)
	for sc.Scan() {
		l := strings.TrimSpace(sc.Text())
		if l == "" || strings.HasPrefix(l, "#") {
			continue
		}
		ops = append(ops, l)
	}
	return ops
}
