package e9

import (
	"fmt"
	"strings"

	"verifharness/report"
	"verifharness/rng"
	"verifharness/run"
)

// Known: histories of recorded (not repaired) findings; each runs in a fresh child and is
// expected to fail with the recorded signature.
var Known = [][]string{
	// a peer that does not read + a toxic change on that direction: the request blocks for ever
	// holding the collection mutex, GET /proxies blocks behind it
	{"proxy p1 echo", "stall p1 33554432", "apiasync POST /proxies/p1/toxics {\"name\":\"t\",\"type\":\"latency\",\"stream\":\"downstream\",\"attributes\":{\"latency\":1}}"},
	// removing a toxic whose stub has closed itself leaves link.stubs longer than the chain:
	// the next AddToxic on that link indexes the chain out of range
	{"proxy p1 echo", "toxic p1 up a limit_data {\"bytes\":4}", "toxic p1 up b noop {}", "toxic p1 up c latency {\"latency\":5000}",
		"halfclose p1 4", "untoxic p1 a", "untoxic p1 b", "toxic p1 up d noop {}"},
	// the same misalignment, other crash site: the stub after the removed (closed) one is still running
	// (slow_close waiting) and is restarted with the limit_data toxic just added: no LimitDataToxicState
	{"proxy p1 echo", "toxic p1 up a timeout {\"timeout\":0}", "toxic p1 up b slow_close {\"delay\":5000}", "stall p1 100",
		"untoxic p1 a", "toxic p1 up c limit_data {\"bytes\":100}"},
}

// LowFD: connection load against a server with a small file-descriptor limit.
var LowFD = [][]string{
	{"lowfd 48", "proxy p1 echo", "echo p1", "flood p1 60", "release", "echo p1"},
}

// Corpus: witnesses of repaired defects (must pass).
var Corpus = [][]string{
	{"proxy p1 echo", "toxic p1 up s slicer {}", "traffic p1 1 1", "traffic p1 1000 3"},
	{"proxy p1 echo", "toxic p1 down s slicer {\"average_size\":3,\"size_variation\":7}", "traffic p1 14 1", "traffic p1 5000 2"},
	{"proxy p1 echo", "toxic p1 up b bandwidth {\"rate\":-1}", "traffic p1 300 1"},
	{"proxy p1 echo", "toxic p1 up b bandwidth {\"rate\":9223372036854775807}", "traffic p1 300 1"},
	{"proxy p1 echo", "toxic p1 up l latency {\"latency\":1,\"jitter\":4611686018427387904}", "traffic p1 10 1"},
}

// Directed: histories aimed at state that survives a restart of a stub on a live connection
// (must pass).
var Directed = [][]string{
	// a timeout toxic that never fires, connections that come and go under it, then its removal
	{"proxy p1 echo", "toxic p1 up t1 timeout {\"timeout\":0}", "traffic p1 10 1", "traffic p1 10 1", "untoxic p1 t1", "echo p1"},
	// more toxics in one direction than there are toxic types, then new connections
	{"proxy p1 echo", "toxic p1 up m1 latency {\"latency\":0}", "toxic p1 up m2 latency {\"latency\":0}", "toxic p1 up m3 latency {\"latency\":0}",
		"toxic p1 up m4 latency {\"latency\":0}", "toxic p1 up m5 latency {\"latency\":0}", "toxic p1 up m6 latency {\"latency\":0}",
		"toxic p1 up m7 latency {\"latency\":0}", "toxic p1 up m8 latency {\"latency\":0}", "toxic p1 up m9 latency {\"latency\":0}",
		"toxic p1 up m10 latency {\"latency\":0}", "traffic p1 10 1", "echo p1"},
	// limit_data lowered below what the connection has already carried, then more data
	{"proxy p1 echo", "toxic p1 up t1 limit_data {\"bytes\":1000}", "hold p1 300", "retoxic p1 t1 {\"bytes\":5}", "more 50"},
	{"proxy p1 echo", "toxic p1 down t1 limit_data {\"bytes\":1000}", "hold p1 300", "retoxic p1 t1 {\"bytes\":0}", "more 5000", "retoxic p1 t1 {\"bytes\":-1}", "more 1"},
	// a timeout toxic updated while it is counting down; a slow_close updated while it delays a close
	{"proxy p1 echo", "toxic p1 up t1 timeout {\"timeout\":200}", "hold p1 10", "retoxic p1 t1 {\"timeout\":0}", "more 10", "retoxic p1 t1 {\"timeout\":1}", "more 10"},
	{"proxy p1 echo", "toxic p1 up t1 slow_close {\"delay\":200}", "halfclose p1 10", "retoxic p1 t1 {\"delay\":1}", "traffic p1 10 1"},
	// a limit_data toxic that has closed its stub is updated while a slow_close behind it keeps the
	// connection alive, and the sender goes on
	{"proxy p1 echo", "toxic p1 up t1 limit_data {\"bytes\":10}", "toxic p1 up t2 slow_close {\"delay\":4000}", "hold p1 10", "retoxic p1 t1 {\"bytes\":100000}", "more 50", "more 50", "echo p1"},
	{"proxy p1 echo", "toxic p1 down t1 limit_data {\"bytes\":10}", "toxic p1 down t2 slow_close {\"delay\":4000}", "hold p1 10", "retoxic p1 t1 {\"bytes\":100000}", "more 50", "more 50", "echo p1"},
	// slicer and bandwidth re-parametrised in mid-stream
	{"proxy p1 echo", "toxic p1 up t1 slicer {\"average_size\":10,\"size_variation\":3,\"delay\":50}", "hold p1 2000", "retoxic p1 t1 {\"average_size\":1,\"size_variation\":0,\"delay\":0}", "more 400"},
	{"proxy p1 echo", "toxic p1 up t1 bandwidth {\"rate\":1}", "hold p1 2000", "retoxic p1 t1 {\"rate\":0}", "more 400", "retoxic p1 t1 {\"rate\":100000}", "more 50"},
}

var wild = []string{"0", "-1", "1", "2", "7", "100", "-100", "2147483648", "4611686018427387903", "4611686018427387904",
	"9223372036854775807", "-9223372036854775808", "92233720368547758", "92233720368547759", "1e3", "1.5", "\"x\"", "null", "true", "[1]", "{}", "99999999999999999999"}

var attrNames = map[string][]string{
	"latency": {"latency", "jitter"}, "bandwidth": {"rate"}, "slicer": {"average_size", "size_variation", "delay"},
	"slow_close": {"delay"}, "timeout": {"timeout"}, "limit_data": {"bytes"}, "reset_peer": {"timeout"}, "noop": {}, "bogus": {"x"},
}

func attrs(r *rng.R, ty string) string {
	var fs []string
	for _, n := range attrNames[ty] {
		if r.Chance(1, 5) {
			continue
		}
		v := wild[r.Intn(len(wild))]
		if ty == "slicer" && n == "delay" && r.Chance(3, 4) {
			v = r.PickS("0", "1", "50")
		}
		if ty == "limit_data" && r.Chance(3, 4) {
			v = r.PickS("0", "1", "5", "200", "1000", "100000")
		}
		if (ty == "latency" && n == "latency" || ty == "slow_close" || ty == "timeout" || ty == "reset_peer") && r.Chance(3, 4) {
			v = r.PickS("0", "1", "20", "200")
		}
		fs = append(fs, fmt.Sprintf("%q:%s", n, v))
	}
	return "{" + strings.Join(fs, ",") + "}"
}

// updateUnderTraffic: a toxic, an open connection that has carried some bytes, updates of the
// toxic's attributes (each restarts the stubs of the open connection, whose per-connection state
// survives), more bytes on the same connection after each.
func updateUnderTraffic(r *rng.R) []string {
	types := []string{"limit_data", "limit_data", "latency", "bandwidth", "slicer", "slow_close", "timeout", "reset_peer"}
	ty := types[r.Intn(len(types))]
	ops := []string{"proxy p1 echo", fmt.Sprintf("toxic p1 %s t1 %s %s", r.PickS("up", "down"), ty, attrs(r, ty)),
		fmt.Sprintf("hold p1 %d", r.Pick(1, 10, 100, 300, 2000))}
	for k := 0; k < 1+r.Intn(3); k++ {
		ops = append(ops, fmt.Sprintf("retoxic p1 t1 %s", attrs(r, ty)), fmt.Sprintf("more %d", r.Pick(1, 50, 400, 5000)))
	}
	return ops
}

func Episode(r *rng.R) []string {
	if r.Chance(1, 4) {
		return updateUnderTraffic(r)
	}
	ops := []string{"proxy p1 echo"}
	if r.Chance(1, 3) {
		ops = append(ops, "proxy p2 "+r.PickS("echo", "refuse"))
	}
	types := []string{"latency", "bandwidth", "slicer", "slow_close", "timeout", "limit_data", "reset_peer", "noop", "bogus"}
	pn := func() string { return r.PickS("p1", "p1", "p2") }
	n := 4 + r.Intn(14)
	nt := 0
	stalled := false
	tyOf := map[int]string{}
	pOf := map[int]string{}
	for i := 0; i < n; i++ {
		if nt > 0 && !stalled && r.Chance(1, 7) {
			// update a toxic while connections are open, then more data on them
			k := 1 + r.Intn(nt)
			if tyOf[k] != "bogus" {
				ops = append(ops, fmt.Sprintf("retoxic %s t%d %s", pOf[k], k, attrs(r, tyOf[k])))
				if r.Chance(2, 3) {
					ops = append(ops, fmt.Sprintf("more %d", r.Pick(1, 50, 400, 5000)))
				}
				continue
			}
		}
		if !stalled && r.Chance(1, 8) {
			ops = append(ops, fmt.Sprintf("hold %s %d", pn(), r.Pick(1, 10, 100, 300, 2000)))
			continue
		}
		switch x := r.Intn(20); {
		case x < 6 && !stalled:
			nt++
			ty := types[r.Intn(len(types))]
			tyOf[nt] = ty
			pOf[nt] = pn()
			ops = append(ops, fmt.Sprintf("toxic %s %s t%d %s %s", pOf[nt], r.PickS("up", "down"), nt, ty, attrs(r, ty)))
		case x < 12:
			ops = append(ops, fmt.Sprintf("traffic %s %d %d", pn(), r.Pick(1, 2, 14, 100, 101, 1000, 5000, 40000), r.Pick(1, 1, 2, 5)))
		case x == 12:
			ops = append(ops, fmt.Sprintf("rst %s %d", pn(), r.Pick(1, 1000, 100000)))
		case x == 13:
			ops = append(ops, fmt.Sprintf("halfclose %s %d", pn(), r.Pick(1, 1000)))
		case x == 14 && nt > 0 && !stalled && r.Chance(1, 3):
			// (a removal after a stub closed itself may hit the recorded finding C07-e: it is
			// then reported under that finding's signature)
			ops = append(ops, fmt.Sprintf("untoxic %s t%d", pn(), 1+r.Intn(nt)))
		case x == 15:
			ops = append(ops, "raw "+r.PickS("GET /proxies", "GET /version", "GET /nope", "DELETE /proxies/zz", "POST /proxies {", "POST /proxies/p1 {\"enabled\":\"no\"}",
				"POST /proxies/p1/toxics {\"type\":\"latency\",\"attributes\":[]}", "PATCH /proxies/p1/toxics/t1 {\"attributes\":{\"latency\":\"x\"}}",
				"POST /populate [{\"name\":\"p9\"}]", "POST /populate {}", "PUT /proxies", "POST /proxies/p1/toxics "+strings.Repeat("[", 2000)))
		case x == 16 && r.Chance(1, 2):
			ops = append(ops, fmt.Sprintf("stall %s %d", pn(), r.Pick(100, 100000)))
			// (no toxic changes after a stalled peer: recorded finding C07-d)
			stalled = true
		case x == 17:
			ops = append(ops, "raw POST /proxies/"+pn()+" {\"enabled\":"+r.PickS("true", "false")+"}")
		default:
			ops = append(ops, fmt.Sprintf("traffic %s %d 1", pn(), r.Pick(1, 64, 4096)))
		}
	}
	return ops
}

func Sweep(e *Engine, tier string, seed uint64, res *report.Result) {
	res.Rule = "E9: the real toxiproxy-server binary as a child process; random histories of toxics of every type with attribute values from a boundary set (zero, negative, int64 extremes, wrong kinds), traffic of several sizes and chunkings, resets, half-closes, non-reading peers, a refusing upstream, malformed and fuzzed API requests; after every operation: process alive, GET /version and GET /proxies answer within 2 s, every enabled proxy accepts; at the end: reset, echo through every proxy. Witnesses of repaired defects run first; histories of recorded findings run in a child of their own."
	defer e.Close()
	for _, c := range Corpus {
		if f := e.Run(c, res); f != nil {
			res.Failures = append(res.Failures, *f)
			return
		}
	}
	for _, c := range Directed {
		e.stopChild()
		if f := e.Run(c, res); f != nil {
			res.Failures = append(res.Failures, *f)
			return
		}
	}
	for _, k := range Known {
		sub := report.New("known", tier, seed)
		e.stopChild()
		if f := e.Run(k, sub); f != nil {
			res.Failures = append(res.Failures, *f) // classified by its signature
		} else {
			res.Notes = append(res.Notes, "a recorded finding no longer reproduces: "+strings.Join(k, " ; "))
		}
		e.stopChild()
	}
	for _, k := range LowFD {
		e.stopChild()
		if f := e.Run(k, res); f != nil {
			res.Failures = append(res.Failures, *f)
		}
		e.stopChild()
	}
	r := rng.New(seed)
	n := 60
	if tier == "thorough" {
		n = 1500
	}
	for i := 0; i < n; i++ {
		ops := Episode(r)
		if f := e.Run(ops, res); f != nil {
			g := run.Minimize(e, ops, f)
			res.Failures = append(res.Failures, *g)
			if len(res.Failures) >= 6 {
				return
			}
		}
	}
}
