// Package e9 is engine E9 (C07): the real toxiproxy-server binary, built from the working
// tree, runs as a child process; histories of API requests (well-formed, boundary-valued and
// malformed) and of traffic (echo, reset, half-open and non-reading peers, refused upstream
// dials) are thrown at it, and after every operation the model-free oracle of C07 is checked:
// the child is still alive, the API still answers (GET /version and GET /proxies within 2 s)
// and every enabled proxy still accepts a TCP connection.  At the end of a history all toxics
// are reset and an echo round-trip through every proxy with a live upstream must work.
//
// There is no lock-step model here: the Lean theorems of C07 (no toxic step can crash, for
// every attribute value) are tied to the Pipe functions by E2's wild mode and to the handlers
// by E4; E9 looks for what is outside those models — the process as a whole.
//
// Operations (= replay lines):
//
//	proxy <name> <echo|refuse>
//	toxic <proxy> <up|down> <name> <type> <json attributes> | untoxic <proxy> <name> | reset
//	traffic <proxy> <nbytes> <chunks> | rst <proxy> <nbytes> | stall <proxy> <nbytes> | halfclose <proxy> <nbytes>
//	raw <METHOD> <path> <body…>
//	apiasync <METHOD> <path> <body…>     (issued without waiting for the answer: it may block)
package e9

import (
	"bytes"
	"fmt"
	"io"
	"net"
	"net/http"
	"os"
	"os/exec"
	"regexp"
	"strconv"
	"strings"
	"sync"
	"syscall"
	"time"
	"verifharness/ports"

	"verifharness/report"
	"verifharness/run"
)

type Engine struct {
	Server  string // path of the toxiproxy-server binary
	CurFile string
	seen    run.Seen

	child   *exec.Cmd
	out     *bytes.Buffer
	outMu   sync.Mutex
	apiAddr string
	exited  chan struct{}
	echo    net.Listener
	refuse  string
	held    []net.Conn
	live    []net.Conn // the held connections that are being read (op "hold")
	lowFD   int
	listens map[string]string
}

func New(server string) *Engine { return &Engine{Server: server, seen: run.Seen{}} }

func (e *Engine) Name() string { return "E9" }

type lockedBuf struct {
	mu *sync.Mutex
	b  *bytes.Buffer
}

func (l lockedBuf) Write(p []byte) (int, error) {
	l.mu.Lock()
	defer l.mu.Unlock()
	if l.b.Len() < 1<<20 {
		l.b.Write(p)
	}
	return len(p), nil
}

func freePort() string { return strconv.Itoa(ports.Free()) }

func (e *Engine) startChild() error {
	port := freePort()
	e.apiAddr = "127.0.0.1:" + port
	e.out = &bytes.Buffer{}
	cmd := exec.Command(e.Server, "-host", "127.0.0.1", "-port", port)
	if e.lowFD > 0 {
		// a child with a small file-descriptor limit (fd exhaustion under connection load)
		cmd = exec.Command("/bin/sh", "-c", fmt.Sprintf("ulimit -n %d; exec %s -host 127.0.0.1 -port %s", e.lowFD, e.Server, port))
	}
	cmd.Env = append(os.Environ(), "LOG_LEVEL=fatal", "GOMAXPROCS=4", "GOMEMLIMIT=1GiB")
	w := lockedBuf{&e.outMu, e.out}
	cmd.Stdout, cmd.Stderr = w, w
	if err := cmd.Start(); err != nil {
		return err
	}
	e.child = cmd
	e.exited = make(chan struct{})
	go func(c *exec.Cmd, ch chan struct{}) { c.Wait(); close(ch) }(cmd, e.exited)
	for i := 0; i < 200; i++ {
		if st, _ := e.api("GET", "/version", "", time.Second); st == 200 {
			return nil
		}
		select {
		case <-e.exited:
			return fmt.Errorf("server exited at start: %s", e.output())
		default:
		}
		time.Sleep(10 * time.Millisecond)
	}
	return fmt.Errorf("server did not come up")
}

func (e *Engine) stopChild() {
	for _, c := range e.held {
		c.Close()
	}
	e.held = nil
	e.live = nil
	if e.child != nil && e.child.Process != nil {
		e.child.Process.Kill()
		<-e.exited
	}
	e.child = nil
}

func (e *Engine) output() string {
	e.outMu.Lock()
	defer e.outMu.Unlock()
	return e.out.String()
}

func (e *Engine) alive() bool {
	select {
	case <-e.exited:
		return false
	default:
		return true
	}
}

// api issues one request; status 0 = no answer within the timeout / connection error.
func (e *Engine) api(method, path, body string, timeout time.Duration) (int, string) {
	cl := &http.Client{Timeout: timeout, Transport: &http.Transport{DisableKeepAlives: true}}
	var rd io.Reader
	if body != "" {
		rd = strings.NewReader(body)
	}
	req, err := http.NewRequest(method, "http://"+e.apiAddr+path, rd)
	if err != nil {
		return -1, err.Error()
	}
	req.Header.Set("User-Agent", "verif-harness")
	resp, err := cl.Do(req)
	if err != nil {
		return 0, err.Error()
	}
	defer resp.Body.Close()
	b, _ := io.ReadAll(io.LimitReader(resp.Body, 1<<20))
	return resp.StatusCode, string(b)
}

var reProxy = regexp.MustCompile(`"name":"([^"]*)","listen":"([^"]*)","upstream":"([^"]*)","enabled":(true|false)`)

type pinfo struct {
	name, listen, upstream string
	enabled                bool
}

func (e *Engine) proxies() ([]pinfo, bool) {
	st, body := e.api("GET", "/proxies", "", 2*time.Second)
	if st != 200 {
		return nil, false
	}
	var out []pinfo
	for _, m := range reProxy.FindAllStringSubmatch(body, -1) {
		out = append(out, pinfo{m[1], m[2], m[3], m[4] == "true"})
	}
	return out, true
}

// crashSig extracts a stable signature (message + first toxiproxy frame) from the child's output.
func crashSig(out string) (string, string) {
	m := regexp.MustCompile(`(?m)^(panic: .*|fatal error: .*)$`).FindString(out)
	m = regexp.MustCompile(`0x[0-9a-f]+|\[[^\]]*\]|\d+`).ReplaceAllString(m, "")
	fr := regexp.MustCompile(`toxiproxy/v2[\w/]*\.\(?\*?(\w+)\)?\.(\w+)`).FindStringSubmatch(out)
	site := ""
	if fr != nil {
		site = fr[1] + "." + fr[2]
	}
	return strings.TrimSpace(m), site
}

func (e *Engine) Run(ops []string, res *report.Result) *report.Failure {
	if e.CurFile != "" {
		os.WriteFile(e.CurFile, []byte(strings.Join(ops, "\n")+"\n"), 0o644)
	}
	fail := func(at int, what, impl, sig string) *report.Failure {
		return &report.Failure{Kind: "oracle", Property: "C07", Ops: append([]string(nil), ops...), At: at,
			Model: "alive, API answers, every enabled proxy accepts", Impl: impl, What: what, Sig: sig}
	}
	if e.echo == nil {
		ln, err := net.Listen("tcp", "127.0.0.1:0")
		if err != nil {
			panic(err)
		}
		e.echo = ln
		go func() {
			for {
				c, err := ln.Accept()
				if err != nil {
					return
				}
				go func(c net.Conn) { io.Copy(c, c); c.Close() }(c)
			}
		}()
		e.refuse = "127.0.0.1:" + freePort()
	}
	wantLow := 0
	if len(ops) > 0 && strings.HasPrefix(ops[0], "lowfd ") {
		wantLow, _ = strconv.Atoi(strings.Fields(ops[0])[1])
	}
	if e.child == nil || !e.alive() || e.lowFD != wantLow {
		e.stopChild()
		e.lowFD = wantLow
		if err := e.startChild(); err != nil {
			return &report.Failure{Kind: "harness", Ops: ops, What: err.Error(), Sig: "e9:harness"}
		}
	}
	wedged := false
	defer func() {
		// a history that wedged or killed the child gets a fresh one
		if wedged || !e.alive() {
			e.stopChild()
		} else {
			for _, c := range e.held {
				c.Close()
			}
			e.held = nil
			e.live = nil
			e.live = nil
			// clean slate for the next history
			if ps, ok := e.proxies(); ok {
				for _, p := range ps {
					e.api("DELETE", "/proxies/"+p.name, "", 3*time.Second)
				}
			} else {
				e.stopChild()
			}
		}
	}()
	listenOf := func(name string) string {
		ps, _ := e.proxies()
		for _, p := range ps {
			if p.name == name {
				return p.listen
			}
		}
		return ""
	}
	var shape []string
	for i, op := range ops {
		res.Ops++
		f := strings.Fields(op)
		if len(f) == 0 {
			continue
		}
		switch f[0] {
		case "lowfd":
			// handled above: this history runs in a child with that fd limit
		case "flood":
			// n idle connections through the proxy, kept open
			addr := listenOf(f[1])
			n, _ := strconv.Atoi(f[2])
			for k := 0; k < n && addr != ""; k++ {
				c, err := net.DialTimeout("tcp", addr, 300*time.Millisecond)
				if err != nil {
					break
				}
				e.held = append(e.held, c)
			}
			time.Sleep(100 * time.Millisecond)
		case "floodapi":
			// n idle TCP connections to the API port, kept open (they use up the server's fds)
			n, _ := strconv.Atoi(f[1])
			for k := 0; k < n; k++ {
				c, err := net.DialTimeout("tcp", e.apiAddr, 300*time.Millisecond)
				if err != nil {
					break
				}
				e.held = append(e.held, c)
			}
			time.Sleep(200 * time.Millisecond)
		case "knock":
			// one client connects to the proxy and goes away
			if addr := listenOf2(e, f[1]); addr != "" {
				if c, err := net.DialTimeout("tcp", addr, 300*time.Millisecond); err == nil {
					time.Sleep(50 * time.Millisecond)
					c.Close()
				}
			}
		case "release":
			for _, c := range e.held {
				c.Close()
			}
			e.held = nil
			e.live = nil
			e.live = nil
			time.Sleep(200 * time.Millisecond)
		case "echo":
			addr := listenOf(f[1])
			c, err := net.DialTimeout("tcp", addr, time.Second)
			okEcho := false
			if err == nil {
				c.Write([]byte("0123456789abcdef"))
				buf := make([]byte, 16)
				c.SetReadDeadline(time.Now().Add(2 * time.Second))
				_, err = io.ReadFull(c, buf)
				okEcho = err == nil && string(buf) == "0123456789abcdef"
				c.Close()
			}
			if !okEcho {
				return fail(i, "an enabled proxy without toxics, with a live upstream and no other load, does not relay: "+fmt.Sprint(err), fmt.Sprint(err), "e9:C07:proxy-dead:"+strings.Join(shape, ">"))
			}
		case "proxy":
			up := e.echo.Addr().String()
			if f[2] == "refuse" {
				up = e.refuse
			}
			_, body := e.api("POST", "/proxies", fmt.Sprintf(`{"name":%q,"listen":"127.0.0.1:0","upstream":%q}`, f[1], up), 5*time.Second)
			if m := reProxy.FindStringSubmatch(body); m != nil {
				if e.listens == nil {
					e.listens = map[string]string{}
				}
				e.listens[m[1]] = m[2]
			}
		case "toxic":
			st := "upstream"
			if f[2] == "down" {
				st = "downstream"
			}
			body := fmt.Sprintf(`{"name":%q,"type":%q,"stream":%q,"attributes":%s}`, f[3], f[4], st, strings.Join(f[5:], " "))
			s, _ := e.api("POST", "/proxies/"+f[1]+"/toxics", body, 30*time.Second)
			res.Count(fmt.Sprintf("toxic:%s:%d", f[4], s))
		case "untoxic":
			e.api("DELETE", "/proxies/"+f[1]+"/toxics/"+f[2], "", 30*time.Second)
		case "retoxic":
			// update an existing toxic (its stubs are restarted on every live connection)
			s, _ := e.api("POST", "/proxies/"+f[1]+"/toxics/"+f[2], fmt.Sprintf(`{"attributes":%s}`, strings.Join(f[3:], " ")), 30*time.Second)
			res.Count(fmt.Sprintf("retoxic:%d", s))
		case "more":
			// more data on every connection that is being kept open
			n, _ := strconv.Atoi(f[1])
			for _, c := range e.live {
				c.SetWriteDeadline(time.Now().Add(500 * time.Millisecond))
				c.Write(bytes.Repeat([]byte{0x6d}, n))
			}
			time.Sleep(20 * time.Millisecond)
		case "reset":
			e.api("POST", "/reset", "", 30*time.Second)
		case "raw":
			body := ""
			if len(f) > 3 {
				body = strings.Join(f[3:], " ")
			}
			s, _ := e.api(f[1], f[2], body, 30*time.Second)
			res.Count(fmt.Sprintf("raw:%d", s))
		case "apiasync":
			body := ""
			if len(f) > 3 {
				body = strings.Join(f[3:], " ")
			}
			go e.api(f[1], f[2], body, 40*time.Second)
			time.Sleep(300 * time.Millisecond)
		case "traffic", "rst", "stall", "halfclose", "hold":
			addr := listenOf(f[1])
			if addr == "" {
				res.Count("skipped:no-proxy")
				continue
			}
			n, _ := strconv.Atoi(f[2])
			c, err := net.DialTimeout("tcp", addr, time.Second)
			if err != nil {
				res.Count("traffic:dial-failed")
				break
			}
			data := bytes.Repeat([]byte{0x5a}, n)
			chunks := 1
			if f[0] == "traffic" && len(f) > 3 {
				chunks, _ = strconv.Atoi(f[3])
			}
			if chunks < 1 {
				chunks = 1
			}
			c.SetWriteDeadline(time.Now().Add(2 * time.Second))
			for k := 0; k < chunks; k++ {
				lo, hi := k*n/chunks, (k+1)*n/chunks
				if _, err := c.Write(data[lo:hi]); err != nil {
					break
				}
				if chunks > 1 {
					time.Sleep(time.Millisecond)
				}
			}
			switch f[0] {
			case "traffic":
				c.SetReadDeadline(time.Now().Add(250 * time.Millisecond))
				io.Copy(io.Discard, c)
				c.Close()
			case "rst":
				if tc, ok := c.(*net.TCPConn); ok {
					tc.SetLinger(0)
				}
				c.Close()
			case "halfclose":
				if tc, ok := c.(*net.TCPConn); ok {
					tc.CloseWrite()
				}
				e.held = append(e.held, c)
			case "stall":
				e.held = append(e.held, c) // never read, kept open
			case "hold":
				// kept open and read (whatever comes back is discarded): a live connection that
				// later operations act on
				e.held = append(e.held, c)
				e.live = append(e.live, c)
				go io.Copy(io.Discard, c)
			}
		default:
			return nil
		}
		res.Count("op:" + f[0])
		shape = append(shape, f[0])
		if f[0] == "floodapi" || f[0] == "knock" {
			// the server's descriptors are deliberately used up: the API cannot be asked until `release`
			continue
		}
		// ---- the oracle of C07
		time.Sleep(5 * time.Millisecond)
		if !e.alive() {
			msg, site := crashSig(e.output())
			return fail(i, "the toxiproxy-server process died: "+msg+" (in "+site+")", msg, "e9:C07:crash:"+site+":"+msg)
		}
		if st, _ := e.api("GET", "/version", "", 2*time.Second); st != 200 {
			wedged = true
			return fail(i, "GET /version does not answer within 2 s", fmt.Sprint(st), "e9:C07:wedge:version")
		}
		ps, ok := e.proxies()
		if !ok {
			wedged = true
			sig := "e9:C07:wedge:proxies"
			if f[0] == "apiasync" && len(e.held) > 0 {
				sig = "e9:C07:wedge:toxic-change-while-peer-not-reading"
			}
			return fail(i, "GET /proxies does not answer within 2 s (the API is wedged)", "no answer", sig)
		}
		for _, p := range ps {
			if !p.enabled {
				continue
			}
			c, err := net.DialTimeout("tcp", p.listen, time.Second)
			if err != nil {
				return fail(i, "enabled proxy "+p.name+" does not accept connections: "+err.Error(), err.Error(), "e9:C07:proxy-down")
			}
			if tc, ok := c.(*net.TCPConn); ok {
				tc.SetLinger(0)
			}
			c.Close()
		}
	}
	// ---- end of history: without toxics every proxy with a live upstream relays again
	if !e.alive() {
		msg, site := crashSig(e.output())
		return fail(len(ops)-1, "the toxiproxy-server process died: "+msg+" (in "+site+")", msg, "e9:C07:crash:"+site+":"+msg)
	}
	if st, _ := e.api("POST", "/reset", "", 30*time.Second); st != 204 {
		wedged = true
		return fail(len(ops)-1, "POST /reset does not succeed at the end of the history", fmt.Sprint(st), "e9:C07:reset-fails")
	}
	ps, _ := e.proxies()
	for _, p := range ps {
		if p.upstream != e.echo.Addr().String() {
			continue
		}
		c, err := net.DialTimeout("tcp", p.listen, time.Second)
		if err != nil {
			return fail(len(ops)-1, "after reset proxy "+p.name+" does not accept", err.Error(), "e9:C07:proxy-down-after-reset")
		}
		c.Write([]byte("0123456789abcdef"))
		buf := make([]byte, 16)
		c.SetReadDeadline(time.Now().Add(2 * time.Second))
		_, err = io.ReadFull(c, buf)
		c.Close()
		if err != nil || string(buf) != "0123456789abcdef" {
			return fail(len(ops)-1, "after reset an echo through proxy "+p.name+" does not come back", fmt.Sprint(err), "e9:C07:no-echo-after-reset")
		}
	}
	res.Episodes++
	if e.seen.Add(strings.Join(shape, ">") + "|" + strings.Join(ops, ";")) {
		res.Distinct++
		res.AddSample(map[string]any{"ops": strings.Join(ops, " ; ")}, 6)
	}
	return nil
}

// listenOf2: the proxy's listen address as remembered from its creation (the API may be
// unable to answer while its descriptors are used up).
func listenOf2(e *Engine, name string) string { return e.listens[name] }

func (e *Engine) Close() {
	e.stopChild()
	if e.echo != nil {
		e.echo.Close()
	}
}

var _ = syscall.SIGKILL
