//go:build verif

// Package e7 is engine E7 (C16): overlapping API requests against the real handlers.
//
// A history is a sequential prefix (requests in E4's replay format, executed in lock-step
// with the sequential model), the line "||", and 2–8 requests that are then issued
// simultaneously from as many goroutines against the same in-process ApiServer, while
// clients connect to and leave the proxies' ports.  The hook VerifYield, which the build
// overlay inserts into api.go between the lock-free steps of a handler, stretches the windows
// between those steps by small pseudo-random sleeps.
//
// When all requests have returned (a request that does not return within 10 s is a
// deadlock: C16), the engine searches for a one-at-a-time ordering of the requests,
// consistent with their real-time order (a request that returned before another was issued
// comes first), under which the sequential model (`Toxi.Api.step`, the model E4 ties to the
// handlers) gives every request the status it really got and ends in the registry state
// (GET /proxies) and the set of bound ports really observed.  If there is none the history is
// not linearizable: a failing input for C16.  The search backtracks in the Lean driver with
// `push`/`pop`.
package e7

import (
	"fmt"
	"math/rand"
	"net"
	"net/http"
	"os"
	"regexp"
	"sort"
	"strconv"
	"strings"
	"sync"
	"time"

	"github.com/rs/zerolog"

	toxiproxy "github.com/Shopify/toxiproxy/v2"

	"verifharness/drv"
	"verifharness/e4"
	"verifharness/report"
	"verifharness/run"
)

type Engine struct {
	D       *drv.Driver
	E4      *e4.Engine
	CurFile string
	Trials  int // how often the concurrent part of a history is repeated (fresh server each time)
	seen    run.Seen
	trial   uint64
	// Wedged: a history deadlocked the handlers; the server of that history cannot be stopped (its
	// locks are held for good), so nothing more is run in this process
	Wedged bool
}

func New(d *drv.Driver) *Engine {
	return &Engine{D: d, E4: e4.New(d), Trials: 1, seen: run.Seen{}}
}

func (e *Engine) Name() string { return "E7" }
func (e *Engine) Close()       { e.E4.Close() }

type call struct {
	op         string
	line       string
	inv, ret   time.Time
	status     int
	returned   bool
	modelTried int
}

func statusOf(model string) int {
	f := strings.Fields(model)
	if len(f) == 0 {
		return -1
	}
	n, err := strconv.Atoi(f[0])
	if err != nil {
		return -1
	}
	return n
}

// boundPorts: which ports of the address table have a listener (nothing but proxies of this
// server, and the harness's own busy port, bind them).
func (e *Engine) boundPorts() string {
	var ps []int
	for _, p := range e.E4.Ports {
		c, err := net.DialTimeout("tcp", "127.0.0.1:"+strconv.Itoa(p), 200*time.Millisecond)
		if err == nil {
			c.Close()
			ps = append(ps, p)
		}
	}
	sort.Ints(ps)
	var out []string
	for _, p := range ps {
		out = append(out, strconv.Itoa(p))
	}
	return strings.Join(out, " ")
}

func (e *Engine) Run(ops []string, res *report.Result) *report.Failure {
	for t := 0; t < e.Trials && !e.Wedged; t++ {
		if f := e.runOnce(ops, res); f != nil {
			return f
		}
	}
	return nil
}

func (e *Engine) runOnce(ops []string, res *report.Result) *report.Failure {
	if e.CurFile != "" {
		os.WriteFile(e.CurFile, []byte(strings.Join(ops, "\n")+"\n"), 0o644)
	}
	e.trial++
	fail := func(kind, what, model, impl, sig string) *report.Failure {
		return &report.Failure{Kind: kind, Property: "C16", Ops: append([]string(nil), ops...), At: len(ops) - 1,
			Model: model, Impl: impl, What: what, Sig: sig}
	}
	e.D.Reset()
	e.E4.SendEnv()
	srv := toxiproxy.NewServer(toxiproxy.NewMetricsContainer(nil), zerolog.Nop())
	h := srv.Routes()
	// every proxy object ever seen in the collection: a listener that outlives its proxy (the
	// object is no longer registered) must still be stopped before the next history
	seenProxies := map[*toxiproxy.Proxy]bool{}
	var spMu sync.Mutex
	capture := func() {
		spMu.Lock()
		for _, p := range srv.Collection.Proxies() {
			seenProxies[p] = true
		}
		spMu.Unlock()
	}
	toxiproxy.VerifNewProxy = func(p *toxiproxy.Proxy) {
		spMu.Lock()
		seenProxies[p] = true
		spMu.Unlock()
	}
	defer func() {
		toxiproxy.VerifYield = func(string) {}
		toxiproxy.VerifNewProxy = func(*toxiproxy.Proxy) {}
		if e.Wedged {
			return
		}
		capture()
		srv.Collection.Clear()
		for p := range seenProxies {
			p.Stop()
		}
	}()
	if bp := e.boundPorts(); bp != "" {
		return fail("harness", "a port of the address table is still bound at the start of a history: "+bp, "", bp, "e7:harness:port-left-bound")
	}
	// ---- sequential prefix, in lock-step with the model
	i := 0
	for ; i < len(ops) && ops[i] != "||"; i++ {
		res.Ops++
		op := e.E4.Subst(ops[i])
		line, method, path, ua, body, ok := e4.ModelLine(op)
		if !ok {
			return nil
		}
		model := e.D.Ask(line)
		st, _ := e.E4.Do(h, method, path, ua == "b", body)
		if strings.Contains(model, "nondet=1") || statusOf(model) != st {
			// the sequential tie is E4's business; a history whose prefix already differs is not used
			res.Count("skipped:prefix-differs")
			return nil
		}
	}
	if i >= len(ops)-1 {
		return nil
	}
	var calls []*call
	for _, o := range ops[i+1:] {
		op := e.E4.Subst(o)
		line, _, _, _, _, ok := e4.ModelLine(op)
		if !ok {
			return nil
		}
		calls = append(calls, &call{op: op, line: line})
	}
	capture()
	// ---- the concurrent part
	rnd := rand.New(rand.NewSource(int64(e.trial)*7919 + int64(len(ops))))
	var rmu sync.Mutex
	toxiproxy.VerifYield = func(site string) {
		rmu.Lock()
		d := time.Duration(rnd.Intn(4)) * 700 * time.Microsecond
		rmu.Unlock()
		if d > 0 {
			time.Sleep(d)
		}
	}
	start := make(chan struct{})
	var wg sync.WaitGroup
	var mu sync.Mutex
	for k, c := range calls {
		wg.Add(1)
		delay := time.Duration(rnd.Intn(3)) * 400 * time.Microsecond
		// some clients upload their body slowly: whatever the handler does between reading the
		// first and the last byte of it happens while the other requests run
		var pause time.Duration
		if rnd.Intn(3) == 0 {
			pause = time.Duration(2+rnd.Intn(6)) * time.Millisecond
		}
		go func(k int, c *call) {
			defer wg.Done()
			<-start
			time.Sleep(delay)
			_, method, path, ua, body, _ := e4.ModelLine(c.op)
			inv := time.Now()
			st, _ := e.E4.DoSlow(h, method, path, ua == "b", body, pause)
			ret := time.Now()
			mu.Lock()
			c.inv, c.ret, c.status, c.returned = inv, ret, st, true
			mu.Unlock()
		}(k, c)
	}
	// connection churn meanwhile
	stopChurn := make(chan struct{})
	churnDone := make(chan struct{})
	go func() {
		defer close(churnDone)
		for {
			select {
			case <-stopChurn:
				return
			default:
			}
			capture()
			for _, p := range e.E4.Ports {
				if c, err := net.DialTimeout("tcp", "127.0.0.1:"+strconv.Itoa(p), 20*time.Millisecond); err == nil {
					c.Write([]byte("x"))
					c.Close()
				}
			}
			time.Sleep(300 * time.Microsecond)
		}
	}()
	close(start)
	done := make(chan struct{})
	go func() { wg.Wait(); close(done) }()
	deadlocked := false
	select {
	case <-done:
	case <-time.After(10 * time.Second):
		deadlocked = true
	}
	close(stopChurn)
	select {
	case <-churnDone:
	case <-time.After(2 * time.Second): // (the churn's own look at the registry can be stuck behind a deadlock)
	}
	if deadlocked {
		var stuck []string
		mu.Lock()
		for _, c := range calls {
			if !c.returned {
				stuck = append(stuck, c.op)
			}
		}
		mu.Unlock()
		e.Wedged = true
		return fail("oracle", "requests did not return within 10 s: "+strings.Join(stuck, " ; "), "every request returns", "blocked", "e7:C16:deadlock")
	}
	toxiproxy.VerifYield = func(string) {}
	// the observation the search has to explain: registry and bound ports, taken when every
	// request has returned (nothing changes them any more: stop() waits for the listener to be
	// closed, a failed start has bound nothing) - measured until two consecutive looks agree, so
	// that a dial that timed out on a loaded machine is not mistaken for a free port
	_, final := e.E4.Do(h, "GET", "/proxies", false, "-")
	ports := e.boundPorts()
	for look := 0; look < 5; look++ {
		time.Sleep(2 * time.Millisecond)
		_, final2 := e.E4.Do(h, "GET", "/proxies", false, "-")
		ports2 := e.boundPorts()
		if final2 == final && ports2 == ports {
			break
		}
		res.Count("observation-repeated")
		final, ports = final2, ports2
		time.Sleep(50 * time.Millisecond)
	}
	// ---- C06, under concurrency: a create that was refused (4xx) has left nothing behind - in
	// particular no listener on the address it named that no enabled proxy of the registry owns
	// (not when a ProxyUpdate or a populate runs alongside: the recorded races of ProxyUpdate leave
	// a listener of their own - a zombie on an unregistered object -, which is C16's finding and
	// not the refused create's doing)
	otherBinder := false
	for _, c := range calls {
		f := strings.SplitN(c.op, " ", 4)
		if len(f) >= 2 && (f[0] == "POST" || f[0] == "PATCH") {
			segs := strings.Split(strings.Trim(f[1], "/"), "/")
			if (len(segs) == 2 && segs[0] == "proxies") || (len(segs) == 1 && segs[0] == "populate") {
				otherBinder = true
			}
		}
	}
	for _, c := range calls {
		f := strings.SplitN(c.op, " ", 4)
		if otherBinder || len(f) < 4 || f[0] != "POST" || strings.Trim(f[1], "/") != "proxies" || c.status < 400 || c.status >= 500 {
			continue
		}
		m := listenPortRe.FindStringSubmatch(f[3])
		if m == nil {
			continue
		}
		bound := false
		for _, p := range strings.Fields(ports) {
			bound = bound || p == m[1]
		}
		owned := regexp.MustCompile(`\|[^|()]*:` + m[1] + `\|[^|()]*\|1\|`).MatchString(final)
		if bound && !owned {
			f6 := fail("oracle", "the create ["+c.op+"] was answered "+fmt.Sprint(c.status)+", yet port "+m[1]+" is bound afterwards and no enabled proxy of the registry listens on it: the refused request left a listener behind",
				"port "+m[1]+" free", "bound; registry "+final, "e7:C06:refused-create-left-listener")
			f6.Property = "C06"
			return f6
		}
	}
	var obs []string
	for _, c := range calls {
		obs = append(obs, fmt.Sprintf("%d", c.status))
		res.Count(fmt.Sprintf("status:%d", c.status))
	}
	res.Count(fmt.Sprintf("concurrent:%d", len(calls)))
	// ---- linearizability search: (1) every request atomic; (2) if that fails, at the level of
	// the handlers' blocks (Model/Conc.lean: ProxyUpdate is lookup / read defaults / apply, a
	// toxic operation is lookup / apply) — a history only the block level explains is one of the
	// recorded races of ProxyUpdate, anything else is unexplained
	n := len(calls)
	for k, c := range calls {
		if r := e.D.Ask(fmt.Sprintf("creq %d %s", k, strings.TrimPrefix(c.line, "req "))); r != "ok" {
			return fail("disagreement", "driver rejected a request line: "+r, r, c.line, "e7:driver")
		}
	}
	doneReq := make([]bool, n)
	started := make([]bool, n)
	nodes := 0
	budget := 300000
	zombies := "0"
	dead := map[string]bool{} // block-level search states from which no explanation was found
	// populate requests (their `AddOrReplace` is two blocks: stop the old proxy, start the new)
	isPop := make([]bool, n)
	for k, c := range calls {
		f := strings.SplitN(c.op, " ", 3)
		isPop[k] = len(f) > 1 && f[0] == "POST" && strings.Trim(f[1], "/") == "populate"
	}
	atomicPop := false // block-level search with every populate still one block
	// splitStopped: `AddOrReplace` is two blocks also when the proxy it replaces is stopped (its
	// `existing.Stop()` then does nothing, but the window up to `proxy.Start()` is there all the
	// same); false: only the replacement of a running proxy is split
	splitStopped := false
	popName := make([]string, n)
	for k, c := range calls {
		if m := popNameRe.FindStringSubmatch(c.op); isPop[k] && m != nil {
			popName[k] = m[1]
		}
	}
	// whether the proxy a populate is about to replace is running in the model's registry now
	existingRunning := func(k int) bool {
		return regexp.MustCompile(`P\(` + regexp.QuoteMeta(popName[k]) + `\|[^|()]*\|[^|()]*\|1\|`).MatchString(e.D.Ask("state"))
	}
	var dfs func(atomic bool, left int) bool
	dfs = func(atomic bool, left int) bool {
		if left == 0 {
			if e.D.Ask("state") == final && e.D.Ask("ports") == ports {
				zombies = e.D.Ask("zombies")
				return true
			}
			return false
		}
		key := ""
		if !atomic {
			key = e.D.Ask("digest")
			if dead[key] {
				return false
			}
		}
		for k := 0; k < n; k++ {
			if doneReq[k] {
				continue
			}
			if !started[k] {
				// real-time order: everything that returned before k was issued must be done
				okRT := true
				for j := 0; j < n; j++ {
					if !doneReq[j] && j != k && calls[j].ret.Before(calls[k].inv) {
						okRT = false
						break
					}
				}
				if !okRT {
					continue
				}
			}
			if nodes >= budget {
				return false
			}
			nodes++
			wasStarted := started[k]
			through := atomic || (isPop[k] && (atomicPop || (!splitStopped && !wasStarted && !existingRunning(k))))
			e.D.Ask("push")
			started[k] = true
			m := e.D.Ask(fmt.Sprintf("adv %d", k))
			for through && m == "more" {
				m = e.D.Ask(fmt.Sprintf("adv %d", k))
			}
			ok := false
			if m == "blocked" {
				// waits for a mutex another request holds: not enabled here
			} else if m == "more" {
				ok = dfs(atomic, left)
			} else if strings.HasPrefix(m, "done ") && !strings.Contains(m, "nondet=1") {
				st, _ := strconv.Atoi(strings.Fields(m)[1])
				if st == calls[k].status {
					doneReq[k] = true
					ok = dfs(atomic, left-1)
					doneReq[k] = false
				}
			}
			started[k] = wasStarted
			e.D.Ask("pop")
			if ok {
				return true
			}
		}
		if !atomic && nodes < budget {
			// (the digest covers registry, epochs, zombies and every request's phase, hence also
			// which requests are done and with which status; the real-time constraint only
			// depends on the done set)
			dead[key] = true
		}
		return false
	}
	okAtomic := dfs(true, n)
	okBlocks := false
	okReplace := false
	okReplaceStopped := false
	blockSearch := func() {
		nodes = 0
		atomicPop = true
		splitStopped = false
		dead = map[string]bool{}
		okBlocks = dfs(false, n)
		hasPop := false
		for k := range isPop {
			hasPop = hasPop || isPop[k]
		}
		if !okBlocks && nodes < budget && hasPop {
			// … and with `AddOrReplace` as the two steps it is, when it replaces a running proxy
			nodes = 0
			atomicPop = false
			dead = map[string]bool{}
			okReplace = dfs(false, n)
			if !okReplace && nodes < budget {
				// … and also when it replaces a stopped one
				nodes = 0
				splitStopped = true
				dead = map[string]bool{}
				okReplaceStopped = dfs(false, n)
			}
		}
	}
	if !okAtomic {
		blockSearch()
		if !okBlocks && !okReplace && !okReplaceStopped && nodes >= budget {
			// the block-level search ran out of budget: once more with ten times as much
			budget *= 10
			blockSearch()
		}
		if !okBlocks && !okReplace && !okReplaceStopped && nodes >= budget {
			// Still undecided: the history is not atomic (that search is complete), but whether one of
			// the recorded races of ProxyUpdate explains it could not be settled. An undecided search
			// is not a finding; it is counted, and the sweep goes on with other histories.
			res.Count("inconclusive:block-search-budget-exhausted:" + shapeOf(calls))
			res.Notes = append(res.Notes, "block-level search budget exhausted on a non-atomic history (not classified): "+strings.Join(ops, " ; "))
			return nil
		}
	}
	res.Count(fmt.Sprintf("search-nodes<=%d", (nodes+99)/100*100))
	if !okAtomic {
		var hist []string
		for _, c := range calls {
			hist = append(hist, fmt.Sprintf("[%s -> %d]", c.op, c.status))
		}
		impl := fmt.Sprintf("statuses %s ; final %s ; bound ports [%s]", strings.Join(obs, ","), final, ports)
		what := "no one-at-a-time ordering of the overlapping requests (consistent with their real-time order) gives these statuses, this final registry and these bound ports under the sequential model: " + strings.Join(hist, " ")
		switch {
		case okBlocks && zombies != "0":
			return fail("oracle", what+" — explained at block level by ProxyUpdate applying to a proxy that was deleted or replaced after the handler looked it up: a listener outlives its proxy",
				"some sequential order", impl, "e7:C16:update-after-delete-zombie-listener")
		case okBlocks:
			return fail("oracle", what+" — explained at block level by ProxyUpdate reading its defaults (listen, upstream, enabled) before another update of the same proxy took effect: that update is lost",
				"some sequential order", impl, "e7:C16:update-stale-defaults")
		case okReplace:
			return fail("oracle", what+" — explained at block level by a populate replacing a running proxy: AddOrReplace stops the old proxy and starts the new one in two steps, and a ProxyUpdate (which does not take the collection lock) acted in between",
				"some sequential order", impl, "e7:C16:replace-stop-start-interleaved")
		case okReplaceStopped:
			return fail("oracle", what+" — explained at block level by a populate replacing a stopped proxy: between AddOrReplace's existing.Stop() (nothing to stop) and its proxy.Start(), a ProxyUpdate (which does not take the collection lock) started the old object again",
				"some sequential order", impl, "e7:C16:replace-of-stopped-proxy-interleaved")
		default:
			return fail("oracle", what+" — and no interleaving of the handlers' blocks explains it either", "some sequential order", impl, "e7:C16:not-linearizable:"+shapeOf(calls))
		}
	}
	res.Episodes++
	if e.seen.Add(strings.Join(ops, ";")) {
		res.Distinct++
		res.AddSample(map[string]any{"history": strings.Join(ops, " ; "), "statuses": strings.Join(obs, ",")}, 6)
	}
	return nil
}

// shapeOf: the kinds of the overlapping requests (signature of a finding).
func shapeOf(calls []*call) string {
	var ks []string
	for _, c := range calls {
		f := strings.SplitN(c.op, " ", 4)
		seg := strings.Split(strings.Trim(f[1], "/"), "/")
		k := f[0] + ":"
		switch {
		case len(seg) == 1:
			k += seg[0]
		case len(seg) == 2:
			k += "proxy"
			if strings.Contains(f[3], "enabled") {
				k += "-enabled"
			}
			if strings.Contains(f[3], "upstream") || strings.Contains(f[3], "listen") {
				k += "-addr"
			}
		case len(seg) == 3:
			k += "toxics"
		default:
			k += "toxic"
		}
		ks = append(ks, k)
	}
	sort.Strings(ks)
	return strings.Join(ks, "+")
}

var listenPortRe = regexp.MustCompile(`"listen":"[^"]*:(\d+)"`)
var popNameRe = regexp.MustCompile(`"name":"([^"]*)"`)

var _ http.Handler
