//go:build verif

package e7

import (
	"fmt"

	"verifharness/report"
	"verifharness/rng"
	"verifharness/run"
)

// Directed histories: the two races section 6 of DESIGN.md predicted (rows 11, 12), and the
// conflicts the property names (one name, one port, one delete).
var Corpus = [][]string{
	// enable racing a delete: the listener must not outlive its proxy
	{`POST /proxies h {"name":"p1","listen":"127.0.0.1:$A","upstream":"u:1","enabled":false}`, "||",
		`POST /proxies/p1 h {"enabled":true}`, `DELETE /proxies/p1 h -`},
	// disable racing an update that read its defaults earlier: the disable must not be lost
	{`POST /proxies h {"name":"p1","listen":"127.0.0.1:$A","upstream":"u:1"}`, "||",
		`POST /proxies/p1 h {"enabled":false}`, `POST /proxies/p1 h {"upstream":"u:2"}`},
	// a populate replacing a running proxy, racing the re-addressing of another proxy to the
	// same port: the replacement must not lose its port between its stop and its start
	{`POST /proxies h {"name":"p1","listen":"127.0.0.1:$A","upstream":"u:1"}`, `POST /proxies h {"name":"p2","listen":"127.0.0.1:$B","upstream":"u:1"}`, "||",
		`POST /proxies/p2 h {"listen":"127.0.0.1:$A"}`, `POST /populate h [{"name":"p1","listen":"127.0.0.1:$A","upstream":"u:2"}]`},
	// a populate replacing a *stopped* proxy, racing the enabling of that proxy: the old object
	// must not come back to life on the port the replacement is about to bind
	{`POST /proxies h {"name":"p1","listen":"127.0.0.1:$A","upstream":"u:1","enabled":false}`, "||",
		`POST /populate h [{"name":"p1","listen":"127.0.0.1:$A","upstream":"u:2"}]`, `POST /proxies/p1 h {"enabled":true}`},
	{"||", `POST /proxies h {"name":"p1","listen":"127.0.0.1:$A","upstream":"u:1"}`, `POST /proxies h {"name":"p1","listen":"127.0.0.1:$B","upstream":"u:1"}`,
		`POST /proxies h {"name":"p2","listen":"127.0.0.1:$A","upstream":"u:1"}`},
	{`POST /proxies h {"name":"p1","listen":"127.0.0.1:$A","upstream":"u:1"}`, "||", `DELETE /proxies/p1 h -`, `DELETE /proxies/p1 h -`, `DELETE /proxies/p1 h -`},
	// two updates of one toxic that set different fields (bodies may arrive slowly): neither is lost
	{`POST /proxies h {"name":"p1","listen":"127.0.0.1:$A","upstream":"u:1"}`, `POST /proxies/p1/toxics h {"name":"t1","type":"latency","attributes":{"latency":1}}`, "||",
		`POST /proxies/p1/toxics/t1 h {"attributes":{"latency":100}}`, `POST /proxies/p1/toxics/t1 h {"attributes":{"jitter":50}}`, `POST /proxies/p1/toxics/t1 h {"toxicity":0.25}`},
	// a toxic add (its body may arrive slowly) while clients connect and the proxy is deleted or
	// disabled: no combination of requests and connection churn may deadlock the handlers
	// (the upstream accepts: the clients' connections get as far as their links)
	{`POST /proxies h {"name":"p1","listen":"127.0.0.1:$A","upstream":"127.0.0.1:$C"}`, "||",
		`POST /proxies/p1/toxics h {"name":"t1","type":"latency","attributes":{"latency":1}}`, `DELETE /proxies/p1 h -`},
	{`POST /proxies h {"name":"p1","listen":"127.0.0.1:$A","upstream":"127.0.0.1:$C"}`, "||",
		`POST /proxies/p1/toxics h {"name":"t1","type":"latency","attributes":{"latency":1}}`, `POST /proxies/p1 h {"enabled":false}`},
	{`POST /proxies h {"name":"p1","listen":"127.0.0.1:$A","upstream":"127.0.0.1:$C"}`, `POST /proxies/p1/toxics h {"name":"t1","type":"latency","attributes":{"latency":1}}`, "||",
		`POST /proxies/p1/toxics/t1 h {"attributes":{"latency":2}}`, `DELETE /proxies/p1/toxics/t1 h -`, `POST /proxies/p1 h {"upstream":"u:2"}`, `POST /reset h -`},
	// two complete updates of one proxy: one re-addresses it, the other names the current address and
	// disables it - one at a time either (old address, disabled) or (new address, enabled)
	{`POST /proxies h {"name":"p1","listen":"127.0.0.1:$A","upstream":"u:1"}`, "||",
		`POST /proxies/p1 h {"listen":"127.0.0.1:$B","upstream":"u:1","enabled":true}`, `POST /proxies/p1 h {"listen":"127.0.0.1:$A","upstream":"u:1","enabled":false}`},
	{`POST /proxies h {"name":"p1","listen":"127.0.0.1:$A","upstream":"u:1"}`, "||",
		`POST /proxies/p1 h {"listen":"127.0.0.1:$A","upstream":"u:2","enabled":true}`, `POST /proxies/p1 h {"listen":"127.0.0.1:$A","upstream":"u:1","enabled":false}`},
	// a toxic add racing the removal of the same name, and two adds of one name
	{`POST /proxies h {"name":"p1","listen":"127.0.0.1:$A","upstream":"u:1"}`, `POST /proxies/p1/toxics h {"name":"t1","type":"latency","attributes":{"latency":1}}`, "||",
		`DELETE /proxies/p1/toxics/t1 h -`, `POST /proxies/p1/toxics h {"name":"t1","type":"noop","attributes":{}}`, `POST /proxies/p1/toxics h {"name":"t1","type":"timeout","attributes":{}}`},
}

func Episode(r *rng.R) []string {
	var ops []string
	port := func() string { return r.PickS("$A", "$A", "$B") }
	name := func() string { return r.PickS("p1", "p1", "p2") }
	create := func(n string) string {
		en := ""
		if r.Chance(1, 4) {
			en = `,"enabled":false`
		}
		// (half of the proxies have an upstream that accepts, so that the clients connecting meanwhile
		// get as far as their links)
		up := r.PickS("u:1", "127.0.0.1:$C")
		return fmt.Sprintf(`POST /proxies h {"name":%q,"listen":"127.0.0.1:%s","upstream":%q%s}`, n, port(), up, en)
	}
	// prefix
	if r.Chance(4, 5) {
		ops = append(ops, create("p1"))
		if r.Chance(1, 2) {
			ops = append(ops, `POST /proxies/p1/toxics h {"name":"t1","type":"latency","attributes":{"latency":1}}`)
		}
		if r.Chance(1, 3) {
			ops = append(ops, create("p2"))
		}
	}
	ops = append(ops, "||")
	n := 2 + r.Intn(5)
	for i := 0; i < n; i++ {
		p := name()
		switch r.Intn(14) {
		case 0, 1:
			ops = append(ops, create(p))
		case 2, 3:
			ops = append(ops, fmt.Sprintf("DELETE /proxies/%s h -", p))
		case 4, 5:
			ops = append(ops, fmt.Sprintf(`POST /proxies/%s h {"enabled":%s}`, p, r.PickS("true", "false")))
		case 6:
			ops = append(ops, fmt.Sprintf(`POST /proxies/%s h {"upstream":"u:%d"}`, p, 1+r.Intn(2)))
		case 7:
			ops = append(ops, fmt.Sprintf(`POST /proxies/%s h {"listen":"127.0.0.1:%s"}`, p, port()))
		case 8, 9:
			ops = append(ops, fmt.Sprintf(`POST /proxies/%s/toxics h {"name":"t%d","type":%q,"attributes":{}}`, p, 1+r.Intn(2), r.PickS("latency", "noop", "timeout")))
		case 10:
			// updates that each set only part of the toxic: overlapping ones must not undo each other
			switch r.Intn(4) {
			case 0:
				ops = append(ops, fmt.Sprintf(`POST /proxies/%s/toxics/t%d h {"attributes":{"latency":%d},"toxicity":0.5}`, p, 1+r.Intn(2), r.Intn(9)))
			case 1:
				ops = append(ops, fmt.Sprintf(`POST /proxies/%s/toxics/t%d h {"attributes":{"latency":%d}}`, p, 1+r.Intn(2), 10+r.Intn(9)))
			case 2:
				ops = append(ops, fmt.Sprintf(`POST /proxies/%s/toxics/t%d h {"attributes":{"jitter":%d}}`, p, 1+r.Intn(2), 1+r.Intn(9)))
			default:
				ops = append(ops, fmt.Sprintf(`POST /proxies/%s/toxics/t%d h {"toxicity":0.25}`, p, 1+r.Intn(2)))
			}
		case 11:
			ops = append(ops, fmt.Sprintf("DELETE /proxies/%s/toxics/t%d h -", p, 1+r.Intn(2)))
		case 12:
			ops = append(ops, fmt.Sprintf(`POST /populate h [{"name":%q,"listen":"127.0.0.1:%s","upstream":"u:%d"}]`, p, port(), 1+r.Intn(2)))
		default:
			ops = append(ops, fmt.Sprintf("GET /proxies/%s h -", p))
		}
	}
	return ops
}

func Sweep(e *Engine, tier string, seed uint64, res *report.Result) {
	res.Rule = "E7: a sequential prefix, then 2-6 overlapping single-proxy requests (create, delete, enable/disable, re-address, single-entry populate, toxic add/update/remove, reads) on two names and two ports, issued simultaneously against the real handlers with pseudo-random sleeps at the yield points between a handler's lock-free steps and with clients connecting meanwhile; accepted iff some one-at-a-time order consistent with real time reproduces every status, the final registry and the bound ports under the sequential model; a request that does not return in 10 s is a deadlock. Each history is run several times (different sleeps)."
	e.Trials = 3
	if tier == "thorough" {
		e.Trials = 10
	}
	// one failure per signature is reported (the two recorded races of ProxyUpdate come up in
	// many histories); the sweep goes on
	sigs := map[string]int{}
	report1 := func(ops []string, f *report.Failure) {
		sigs[f.Sig]++
		res.Count("failure:" + f.Sig)
		if sigs[f.Sig] == 1 {
			res.Failures = append(res.Failures, *f)
		}
	}
	for _, c := range Corpus {
		if e.Wedged {
			return
		}
		e.Trials *= 4
		f := e.Run(c, res)
		e.Trials /= 4
		if f != nil {
			report1(c, f)
		}
	}
	r := rng.New(seed)
	n := 150
	if tier == "thorough" {
		n = 3000
	}
	for i := 0; i < n; i++ {
		if e.Wedged {
			return
		}
		ops := Episode(r)
		if f := e.Run(ops, res); f != nil {
			report1(ops, f)
			if len(res.Failures) >= 12 {
				return
			}
		}
	}
}

var _ = run.Minimize
