package e2

import (
	"fmt"
	"strings"

	"verifharness/report"
	"verifharness/rng"
	"verifharness/run"
)

const MS = 1000000

// Corpus: minimised past failures and regression witnesses; they run first.
var Corpus = [][]string{
	// C08 (fixed): a chunk that queued behind its predecessor must leave stamped with its full delay
	{"cfg latency 100 0 0 tox 1 incap 1024", "sink 1", "start 0", "in 1", "adv 50000000", "in 1", "adv 6000000000"},
	// C10 (fixed): traffic denser than the timeout must not postpone the close
	{"cfg timeout 300 0 0 tox 1 incap 1024", "sink 1", "start 0", "adv 100000000", "in 1", "adv 100000000", "in 1",
		"adv 100000000", "in 1", "adv 1", "adv 100000000", "in 1", "adv 6000000000"},
}

// WildCorpus (C07, fixed): the attribute values that crashed the original code; run first in
// wild mode.
var WildCorpus = [][]string{
	{"cfg slicer 3 7 92233720368547758 tox 1 incap 1", "sink 1", "start 0.25", "adv 1000000", "draws 1 5 0 5 0 1 1000 1000 0 0 0 5 0 0 0 1 0 1 5 1000 1 1000 0 5 1000 1000 0 1 1000 0 1 1000 5 0 0 0 1000 0 1000 5", "in 3", "draws 5 5 0 5 1 1000 5 1 1000 0 0 1 1 1 5 1000 5 1000 1 5 1000 5 1 1 0 1 1000 1 0 1000 0 5 0 1000 0 5 1 1000 1 1", "in 1000", "draws 5 0 5 1000 1000 5 5 1 0 0 0 1000 1000 1000 1 1 1 5 5 0 0 5 0 1 5 0 1 0 5 0 5 1 0 1000 1000 5 0 1 5 1000", "in 1000", "draws 1000 1 1 1000 5 5 1000 1000 0 1 0 1000 1000 5 1000 1 5 1000 1000 0 5 1000 1 0 5 1000 5 0 1000 1000 1000 1 0 1000 1000 1 1000 1 5 5", "in 101", "draws 1 5 1 0 1000 1000 1 1000 0 1 1 1000 1 1 1 0 0 1000 1 5 1 1000 5 0 1000 1 1000 0 1 5 5 1 1 1000 1000 0 1 1000 1000 0", "in 1", "take", "take", "intr", "adv 0", "start 0.5", "adv 1000000000", "take"},
	{"cfg latency 250 4611686018427387904 9223372036854775807 tox 1 incap 0", "sink 1", "start 0.99999994", "adv 0", "draws 0 5 1 0 0 1000 0 1 5 0 5 1 1 5 1 1 1000 0 5 0 1 5 5 5 1000 5 5 0 0 1 1 1000 0 0 0 5 5 0 5 0", "in 2", "take", "draws 5 1 5 0 1 1 0 1 1000 5 5 1 0 5 0 5 1000 1000 1 0 1 5 0 1000 1000 5 5 0 5 0 1000 1 0 1000 1000 5 1 0 1000 1000", "in 1", "take", "adv 0", "adv 1000000000", "take"},
	{"cfg bandwidth 9223372036854775807 7 -9223372036854775808 tox 1 incap 0", "sink 1", "start 0.4", "take", "adv 100000001", "sink 0", "in 2", "adv 1000000000", "take"},
	{"cfg slicer 0 0 0 tox 1 incap 0", "sink 1", "start 0", "in 1", "take", "adv 1000000"},
	{"cfg bandwidth -1 0 0 tox 1 incap 0", "sink 1", "start 0", "in 3", "adv 100000000", "take"},
}

type cfgGen struct {
	ty  string
	gen func(r *rng.R) (a1, a2, a3 int64)
}

// Valid ("SafeCfg") attribute generators per toxic type, with boundary values.
var cfgs = []cfgGen{
	{"noop", func(r *rng.R) (int64, int64, int64) { return 0, 0, 0 }},
	{"latency", func(r *rng.R) (int64, int64, int64) {
		l := int64(r.Pick(0, 1, 10, 100, 250, 1000))
		j := int64(r.Pick(0, 0, 1, 5, 100, 300))
		return l, j, 0
	}},
	{"bandwidth", func(r *rng.R) (int64, int64, int64) {
		return int64(r.Pick(1, 2, 3, 7, 10, 100, 999, 1000000)), 0, 0
	}},
	{"slicer", func(r *rng.R) (int64, int64, int64) {
		a := int64(r.Pick(1, 2, 3, 8, 64, 1000))
		v := int64(0)
		if a > 1 {
			v = int64(r.Intn(int(a)))
		}
		return a, v, int64(r.Pick(0, 0, 1, 100, 1000, 50000))
	}},
	{"slow_close", func(r *rng.R) (int64, int64, int64) { return int64(r.Pick(0, 1, 100, 2000)), 0, 0 }},
	{"timeout", func(r *rng.R) (int64, int64, int64) { return int64(r.Pick(0, 1, 100, 300, 5000)), 0, 0 }},
	{"limit_data", func(r *rng.R) (int64, int64, int64) { return int64(r.Pick(-1, 0, 1, 2, 5, 10, 100, 100000)), 0, 0 }},
	{"reset_peer", func(r *rng.R) (int64, int64, int64) { return int64(r.Pick(0, 1, 100, 2000)), 0, 0 }},
}

// wild: attribute values over the whole int64 range (C07: zero, negative and extreme numbers).
var wild = []int64{0, 0, 1, -1, 2, 3, 7, 100, -100, 1000, 1 << 31, 1 << 32, (1 << 62) - 1, 1 << 62, (1 << 62) + 1,
	(1 << 63) - 1, -(1 << 62), -(1 << 63), (1<<63 - 1) / 100, (1<<63-1)/100 + 1, (1<<63 - 1) / 2, (1<<63-1)/2 + 1}

func pickWild(r *rng.R) int64 { return wild[r.Intn(len(wild))] }

// WildEpisode: one toxic with attributes from the wild set, small chunks, short advances.
func WildEpisode(r *rng.R, k int) []string {
	c := cfgs[k%len(cfgs)]
	a1, a2, a3 := pickWild(r), pickWild(r), pickWild(r)
	if r.Chance(1, 3) {
		a1, _, _ = c.gen(r) // one sensible attribute among wild ones
	}
	if r.Chance(1, 3) {
		_, a2, _ = c.gen(r)
	}
	if c.ty == "slicer" && r.Chance(1, 2) {
		a3 = int64(r.Pick(0, 1, 100)) // a wild delay (µs) only stretches the episode
	}
	tox := pickTox(r)
	ops := []string{fmt.Sprintf("cfg %s %d %d %d tox %s incap %d", c.ty, a1, a2, a3, tox, r.Pick(0, 1, 1024)), "sink 1", "start " + pickDraw(r, tox)}
	n := 3 + r.Intn(10)
	for i := 0; i < n; i++ {
		switch x := r.Intn(10); {
		case x < 4:
			if c.ty == "latency" || c.ty == "slicer" {
				var ds []string
				for j := 0; j < 40; j++ {
					ds = append(ds, fmt.Sprint(r.Pick(0, 1, 5, 1000)))
				}
				ops = append(ops, "draws "+strings.Join(ds, " "))
			}
			ops = append(ops, fmt.Sprintf("in %d", r.Pick(1, 1, 2, 3, 10, 100, 101, 1000)))
		case x < 7:
			ops = append(ops, fmt.Sprintf("adv %d", []int64{0, 1, MS, 100 * MS, 100*MS + 1, 1000 * MS}[r.Intn(6)]))
		case x == 7:
			ops = append(ops, "take")
		case x == 8:
			ops = append(ops, "intr", "adv 0", "start "+pickDraw(r, tox))
		default:
			ops = append(ops, fmt.Sprintf("sink %d", r.Intn(2)))
		}
	}
	ops = append(ops, "adv 1000000000", "take")
	return ops
}

func pickTox(r *rng.R) string {
	return []string{"1", "1", "1", "0", "0.5", "0.3", "0.999"}[r.Intn(7)]
}

func pickDraw(r *rng.R, tox string) string {
	// on both sides of the threshold, and exactly on it
	switch r.Intn(6) {
	case 0:
		return "0"
	case 1:
		return "0.99999994" // largest float32 below 1
	case 2:
		if tox != "1" {
			return tox
		}
		return "0.5"
	case 3:
		return "0.25"
	default:
		return []string{"0.1", "0.4", "0.6", "0.29999998", "0.9"}[r.Intn(5)]
	}
}

func sizes(r *rng.R, ty string, a1, a2 int64) int {
	switch ty {
	case "bandwidth":
		th := int(a1 * 100)
		if th > 20000 {
			th = 20000
		}
		return r.Pick(0, 1, 2, th-1, th, th+1, 2*th, 2*th+1, 3*th+7, 99, 100, 101, 1000)
	case "slicer":
		sz := r.Pick(1, 2, 3, int(a1), int(a1+a2), int(a1+a2)+1, int(2*a1+1), 100, 1000, 4096, 32768, 65536)
		for sz > 1 && int64(sz)/a1 > 600 { // keep the number of pieces per chunk moderate
			sz /= 4
		}
		return sz
	case "limit_data":
		return r.Pick(0, 1, 2, 3, 4, 5, 6, 9, 10, 11, 50, 100, 101, 1000)
	}
	return r.Pick(0, 1, 2, 3, 10, 100, 1000, 32768)
}

func advs(r *rng.R, ty string, a1, a2, a3 int64) int64 {
	base := []int64{0, 1, MS, 50 * MS, 100 * MS, 100*MS - 1, 100*MS + 1, 1000 * MS, 5000 * MS, 5000*MS + 1}
	switch ty {
	case "latency":
		base = append(base, a1*MS, (a1-a2)*MS, (a1+a2)*MS, a1*MS-1, a1*MS/2)
	case "slicer":
		base = append(base, a3*1000, a3*1000-1, a3*1000+1, 3*a3*1000)
	case "timeout", "reset_peer", "slow_close":
		base = append(base, a1*MS, a1*MS-1, a1*MS+1, a1*MS/3)
	}
	d := base[r.Intn(len(base))]
	if d < 0 {
		d = 0
	}
	return d
}

// Episode generates one structured episode for toxic kind k.
func Episode(r *rng.R, k int) []string {
	c := cfgs[k%len(cfgs)]
	a1, a2, a3 := c.gen(r)
	tox := pickTox(r)
	incap := r.Pick(0, 0, 1, 4, 1024)
	ops := []string{fmt.Sprintf("cfg %s %d %d %d tox %s incap %d", c.ty, a1, a2, a3, tox, incap)}
	if r.Chance(7, 10) {
		ops = append(ops, "sink 1")
	}
	ops = append(ops, "start "+pickDraw(r, tox))
	n := 4 + r.Intn(28)
	eos := false
	// a third of the episodes restart the toxic often (updates of this toxic and add/remove
	// of a neighbour both interrupt and restart it): several restarts between chunks
	restartHeavy := r.Chance(1, 3)
	for i := 0; i < n; i++ {
		if restartHeavy && r.Chance(1, 4) {
			ops = append(ops, "intr", "adv 0")
			if r.Chance(1, 4) {
				b1, b2, b3 := c.gen(r)
				ops = append(ops, fmt.Sprintf("upd %s %d %d %d tox %s", c.ty, b1, b2, b3, tox))
			}
			ops = append(ops, "start "+pickDraw(r, tox))
		}
		switch x := r.Intn(20); {
		case x < 7 && !eos:
			sz := sizes(r, c.ty, a1, a2)
			if sz < 0 {
				sz = 0
			}
			if c.ty == "latency" && a2 > 0 {
				ops = append(ops, fmt.Sprintf("draws %d", r.Intn(int(2*a2)+3)))
			}
			if c.ty == "slicer" && a2 > 0 {
				var ds []string
				m := 2 + 2*sz/int(a1+1)
				if m > 200 {
					m = 200
				}
				for j := 0; j < m; j++ {
					switch r.Intn(3) {
					case 0:
						ds = append(ds, "0")
					case 1:
						ds = append(ds, fmt.Sprint(2*a2-1))
					default:
						ds = append(ds, fmt.Sprint(r.Intn(int(2*a2))))
					}
				}
				ops = append(ops, "draws "+strings.Join(ds, " "))
			}
			ops = append(ops, fmt.Sprintf("in %d", sz))
		case x < 13:
			ops = append(ops, fmt.Sprintf("adv %d", advs(r, c.ty, a1, a2, a3)))
		case x < 15:
			ops = append(ops, "take")
		case x == 15:
			ops = append(ops, "intr", fmt.Sprintf("adv %d", advs(r, c.ty, a1, a2, a3)))
			if r.Chance(1, 3) {
				b1, b2, b3 := c.gen(r)
				ops = append(ops, fmt.Sprintf("upd %s %d %d %d tox %s", c.ty, b1, b2, b3, pickTox(r)))
			}
			ops = append(ops, "start "+pickDraw(r, tox))
		case x == 16:
			ops = append(ops, fmt.Sprintf("sink %d", r.Intn(2)))
		case x == 17 && !eos && r.Chance(1, 2):
			ops = append(ops, "eos")
			eos = true
		default:
			ops = append(ops, fmt.Sprintf("adv %d", advs(r, c.ty, a1, a2, a3)))
		}
	}
	ops = append(ops, "adv 6000000000", "take", "take")
	return ops
}

func Sweep(e *Engine, tier string, seed uint64, only string, res *report.Result) {
	res.Rule = "E2: structured random episodes per toxic type (valid attributes from a boundary grid, toxicity and draw on both sides of the threshold, chunk sizes around each threshold in play, clock advances around each timer, interrupts/restarts/updates, sink ready or not, EOS). Each operation is executed on the real Pipe under synctest and on the Lean stage model; all observables (virtual time, accepted inputs, emissions with timestamps, closed, returned, interrupt result) are compared after every operation. distinct_nontrivial counts distinct (configuration, program-counter path) pairs of length > 2."
	report1 := func(ops []string, f *report.Failure) {
		g := run.Minimize(e, ops, f)
		res.Failures = append(res.Failures, *g)
		if g.Kind == "disagreement" && !e.OracleOnly {
			// the tie broke: search the implementation for an input that violates the
			// property itself (model-free oracles only), near the disagreement first
			e.OracleOnly = true
			sub := report.New("search", tier, seed)
			if f2 := e.Run(g.Ops, sub); f2 != nil && f2.Kind == "oracle" {
				res.Failures = append(res.Failures, *f2)
			} else if f2 := e.Run(ops, sub); f2 != nil && f2.Kind == "oracle" {
				res.Failures = append(res.Failures, *run.Minimize(e, ops, f2))
			} else {
				Sweep(e, "quick", seed+13, only, sub)
				for _, x := range sub.Failures {
					if x.Kind == "oracle" {
						res.Failures = append(res.Failures, x)
						break
					}
				}
			}
			res.Notes = append(res.Notes, fmt.Sprintf("search after disagreement: %d oracle-only episodes", sub.Episodes))
			e.OracleOnly = false
		}
	}
	if e.Wild {
		for _, c := range WildCorpus {
			if f := e.Run(c, res); f != nil {
				report1(c, f)
				return
			}
		}
	}
	for _, c := range Corpus {
		if only != "" && !strings.Contains(","+only+",", ","+strings.Fields(c[0])[1]+",") {
			continue
		}
		if f := e.Run(c, res); f != nil {
			report1(c, f)
			return
		}
	}
	r := rng.New(seed)
	n := 1500
	if tier == "thorough" {
		n = 30000
	}
	kinds := []int{}
	for k, c := range cfgs {
		if only == "" || strings.Contains(","+only+",", ","+c.ty+",") {
			kinds = append(kinds, k)
		}
	}
	for i := 0; i < n; i++ {
		ops := Episode(r, kinds[i%len(kinds)])
		if e.Wild {
			ops = WildEpisode(r, kinds[i%len(kinds)])
		}
		if f := e.Run(ops, res); f != nil {
			report1(ops, f)
			if len(res.Failures) >= 3 {
				return
			}
			if f.Kind == "disagreement" {
				return
			}
		}
	}
}
