// Package e2 is correspondence engine E2: one real toxics.ToxicStub running one real
// toxic's Pipe (through ToxicStub.Run), driven inside a testing/synctest bubble (virtual,
// punctual clock; "all goroutines durably blocked" detection) with scripted randomness,
// in lock-step with the Lean stage model (Model/Toxic.lean + Model/StageEnv.lean).
//
// Abstract operations (also the replay format), first op of an episode is cfg:
//
//	cfg <type> <a1> <a2> <a3> tox <float32> incap <k>
//	start <draw float32> | in <nbytes> | eos | adv <ns> | sink 0|1 | take | intr
//	draws d1 d2 ... | upd <type> <a1> <a2> <a3> tox <float32>
package e2

import (
	"encoding/hex"
	"fmt"
	"math/big"
	"os"
	"strconv"
	"strings"
	"sync"
	"sync/atomic"
	"testing"
	"testing/synctest"
	"time"

	"github.com/Shopify/toxiproxy/v2/stream"
	"github.com/Shopify/toxiproxy/v2/toxics"

	"verifharness/drv"
	"verifharness/report"
	"verifharness/run"
	"verifharness/vrand"
)

type Engine struct {
	D          *drv.Driver
	T          *testing.T
	Variant    string // "fixed" (current tree) — "legacy" only for regression witnesses
	OracleOnly bool
	Oracles    []Oracle
	CurFile    string // the running episode is written here (post-mortem of a process crash)
	// Wild (C07): attribute values from the whole int64 range; an operation for which the model
	// predicts a panic is executed all the same — if the real code panics the process dies and
	// the episode left in CurFile is the failing input
	Wild bool
	seen run.Seen
}

func New(d *drv.Driver, t *testing.T) *Engine {
	return &Engine{D: d, T: t, Variant: "fixed", seen: run.Seen{}}
}

func (e *Engine) Name() string { return "E2" }

func hx(b []byte) string {
	if len(b) == 0 {
		return "-"
	}
	return hex.EncodeToString(b)
}

func frac(f float32) string {
	r := new(big.Rat).SetFloat64(float64(f))
	return r.Num().String() + " " + r.Denom().String()
}

func MakeToxic(ty string, a1, a2, a3 int64) toxics.Toxic {
	switch ty {
	case "noop":
		return &toxics.NoopToxic{}
	case "latency":
		return &toxics.LatencyToxic{Latency: a1, Jitter: a2}
	case "bandwidth":
		return &toxics.BandwidthToxic{Rate: a1}
	case "slicer":
		return &toxics.SlicerToxic{AverageSize: int(a1), SizeVariation: int(a2), Delay: int(a3)}
	case "slow_close":
		return &toxics.SlowCloseToxic{Delay: a1}
	case "timeout":
		return &toxics.TimeoutToxic{Timeout: a1}
	case "limit_data":
		return &toxics.LimitDataToxic{Bytes: a1}
	case "reset_peer":
		return &toxics.ResetToxic{Timeout: a1}
	}
	return nil
}

// Emission is one chunk that left the stub, as seen by the sink.
type Emission struct {
	At   int64 // virtual ns since episode start
	Data []byte
	Ts   int64
}

// Trace is everything an oracle may look at (implementation side only).
type Trace struct {
	Type         string
	A1, A2, A3   int64
	Tox          float32
	Active       []bool     // per start: did the draw select the toxic?
	DrawUsed     []bool     // per start: did the stub consume the scripted draw at all?
	Inputs       []Emission // chunks handed to the stub: At = time the sender offered it, Ts = stamp
	AcceptedAt   []int64
	Out          []Emission
	ClosedAt     int64 // -1 if not closed
	EosAt        int64 // -1
	StartAt      []int64
	IntrAt       []int64
	Reconfigured bool
	SinkAlways   bool     // the sink was ready for the whole episode
	Samples      []Sample // (virtual time, closed?) after every operation
	AcceptedOp   []int    // operation during which each input was accepted
	EosOp        int
	End          int64
}

type Sample struct {
	T      int64
	Closed bool
	Op     int // index of the operation after which the sample was taken
}

// Oracle is a model-free check of one property on an implementation trace.
type Oracle struct {
	Property string
	Check    func(tr *Trace) (sig string, what string)
}

type ep struct {
	stub     *toxics.ToxicStub
	w        *toxics.ToxicWrapper
	in, out  chan *stream.StreamChunk
	t0       time.Time
	accepted atomic.Int32
	running  atomic.Int32
	mu       sync.Mutex
	em       []Emission
	sinkCtl  chan bool
	sinkAck  chan struct{}
	quit     chan struct{}
	intrRes  chan bool
	intr     string
	senders  sync.WaitGroup
	nsend    atomic.Int32
	curOp    atomic.Int32
	ctr      byte
}

func (p *ep) since() int64 { return time.Since(p.t0).Nanoseconds() }

func (p *ep) sink() {
	var src chan *stream.StreamChunk
	for {
		select {
		case <-p.quit:
			return
		case on := <-p.sinkCtl:
			if on {
				src = p.out
			} else {
				src = nil
			}
			p.sinkAck <- struct{}{}
		case c, ok := <-src:
			if !ok {
				src = nil
				continue
			}
			p.mu.Lock()
			p.em = append(p.em, Emission{p.since(), append([]byte(nil), c.Data...), c.Timestamp.Sub(p.t0).Nanoseconds()})
			p.mu.Unlock()
		}
	}
}

func (e *Engine) Run(ops []string, res *report.Result) (fail *report.Failure) {
	if e.CurFile != "" {
		os.WriteFile(e.CurFile, []byte(strings.Join(ops, "\n")+"\n"), 0o644)
	}
	e.D.Reset()
	func() {
		defer func() {
			if r := recover(); r != nil {
				if s := fmt.Sprint(r); strings.HasPrefix(s, "deadlock: main bubble goroutine") {
					res.Count("bubble:goroutines-left-blocked")
					return
				}
				panic(r)
			}
		}()
		synctest.Test(e.T, func(t *testing.T) { fail = e.episode(ops, res) })
	}()
	return fail
}

func (e *Engine) episode(ops []string, res *report.Result) *report.Failure {
	fail := func(at int, kind, prop, model, implS, what, sig string) *report.Failure {
		return &report.Failure{Kind: kind, Property: prop, Ops: append([]string(nil), ops...), At: at,
			Model: model, Impl: implS, What: what, Sig: sig}
	}
	if len(ops) == 0 || !strings.HasPrefix(ops[0], "cfg ") {
		return nil
	}
	f := strings.Fields(ops[0])
	if len(f) != 9 {
		return nil
	}
	ty := f[1]
	a1, _ := strconv.ParseInt(f[2], 10, 64)
	a2, _ := strconv.ParseInt(f[3], 10, 64)
	a3, _ := strconv.ParseInt(f[4], 10, 64)
	tox64, _ := strconv.ParseFloat(f[6], 32)
	tox := float32(tox64)
	incap, _ := strconv.Atoi(f[8])
	tx := MakeToxic(ty, a1, a2, a3)
	if tx == nil {
		return nil
	}
	if r := e.D.Ask(fmt.Sprintf("cfg %s %s %d %d %d tox %s incap %d", e.Variant, ty, a1, a2, a3, frac(tox), incap)); r != "ok" {
		return fail(0, "disagreement", "", r, "ok", "driver rejected cfg", "e2:cfg")
	}
	vrand.Reset()
	p := &ep{in: make(chan *stream.StreamChunk, incap), out: make(chan *stream.StreamChunk),
		sinkCtl: make(chan bool), sinkAck: make(chan struct{}), quit: make(chan struct{}),
		intrRes: make(chan bool, 1), intr: "-", ctr: 1, t0: time.Now()}
	p.stub = toxics.NewToxicStub(p.in, p.out)
	p.w = &toxics.ToxicWrapper{Toxic: tx, Type: ty, Toxicity: tox}
	if st, ok := tx.(toxics.StatefulToxic); ok {
		p.stub.State = st.NewState()
	}
	go p.sink()
	tr := &Trace{Type: ty, A1: a1, A2: a2, A3: a3, Tox: tox, ClosedAt: -1, EosAt: -1, SinkAlways: true}
	sinkOn := false
	eos := false
	var shape []string
	raced := false
	var result *report.Failure
	defer func() { e.cleanup(p, eos) }()

	for i := 1; i < len(ops); i++ {
		op := ops[i]
		w := strings.Fields(op)
		res.Ops++
		var line string
		takeRes := "-"
		var exec func()
		switch w[0] {
		case "start":
			d64, _ := strconv.ParseFloat(w[1], 32)
			d := float32(d64)
			line = "start " + frac(d)
			exec = func() {
				vrand.SetFloat(d)
				fc0 := vrand.FCalls
				defer func() { synctest.Wait(); tr.DrawUsed = append(tr.DrawUsed, vrand.FCalls > fc0) }()
				p.running.Add(1)
				if p.intr != "p" {
					p.intr = "-"
				}
				tr.Active = append(tr.Active, d < p.w.Toxicity)
				tr.StartAt = append(tr.StartAt, p.since())
				go func() { p.stub.Run(p.w); p.running.Add(-1) }()
			}
		case "in":
			n, _ := strconv.Atoi(w[1])
			data := make([]byte, n)
			for k := range data {
				data[k] = p.ctr
				p.ctr++
				if p.ctr == 0 {
					p.ctr = 1
				}
			}
			line = "in " + hx(data)
			exec = func() {
				c := &stream.StreamChunk{Data: data, Timestamp: time.Now()}
				tr.Inputs = append(tr.Inputs, Emission{p.since(), append([]byte(nil), data...), p.since()})
				p.nsend.Add(1)
				go func() {
					// (an implementation that deviates from the model may leave this send blocked
					// until the harness closes the channel: that is a disagreement to report, not
					// a reason for the harness to die)
					defer func() {
						if recover() != nil {
							p.nsend.Add(-1)
						}
					}()
					p.in <- c
					p.accepted.Add(1)
					p.nsend.Add(-1)
					p.mu.Lock()
					tr.AcceptedAt = append(tr.AcceptedAt, p.since())
					tr.AcceptedOp = append(tr.AcceptedOp, int(p.curOp.Load()))
					p.mu.Unlock()
				}()
			}
		case "eos":
			line = "eos"
			exec = func() { close(p.in); eos = true; tr.EosAt = p.since(); tr.EosOp = i }
		case "adv":
			line = op
			d, _ := strconv.ParseInt(w[1], 10, 64)
			exec = func() { time.Sleep(time.Duration(d)) }
		case "sink":
			line = op
			exec = func() {
				sinkOn = w[1] == "1"
				p.sinkCtl <- sinkOn
				<-p.sinkAck
			}
		case "take":
			line = "take"
			exec = func() {
				select {
				case c, ok := <-p.out:
					if !ok {
						takeRes = "closed"
					} else {
						ts := c.Timestamp.Sub(p.t0).Nanoseconds()
						takeRes = fmt.Sprintf("%s:%d", hx(c.Data), ts)
						tr.Out = append(tr.Out, Emission{p.since(), append([]byte(nil), c.Data...), ts})
					}
				default:
					takeRes = "none"
				}
			}
		case "intr":
			line = "intr"
			exec = func() {
				p.intr = "p"
				tr.IntrAt = append(tr.IntrAt, p.since())
				ch := make(chan bool, 1)
				p.intrRes = ch
				go func() { ch <- p.stub.InterruptToxic() }()
			}
		case "draws":
			line = op
			exec = func() {
				for _, s := range w[1:] {
					v, _ := strconv.ParseInt(s, 10, 64)
					vrand.Push(v)
				}
			}
		case "upd":
			u1, _ := strconv.ParseInt(w[2], 10, 64)
			u2, _ := strconv.ParseInt(w[3], 10, 64)
			u3, _ := strconv.ParseInt(w[4], 10, 64)
			t64, _ := strconv.ParseFloat(w[6], 32)
			line = fmt.Sprintf("upd %s %d %d %d tox %s", w[1], u1, u2, u3, frac(float32(t64)))
			exec = func() {
				p.w.Toxic = MakeToxic(w[1], u1, u2, u3)
				p.w.Toxicity = float32(t64)
				tr.Reconfigured = true
			}
		default:
			return nil
		}
		model := e.D.Ask(line)
		if strings.HasPrefix(model, "bad-op") {
			// the generator produced an operation that is not enabled in the model: skip it
			res.Count("skipped:" + strings.ReplaceAll(model, " ", "_"))
			continue
		}
		mObs, mGuide, _ := strings.Cut(model, " | ")
		if strings.Contains(mObs, "crash=") {
			res.Count("model-predicts-crash")
			if e.Wild {
				// the real code is expected to die here; if it survives, the model is wrong
				p.curOp.Store(int32(i))
				exec()
				synctest.Wait()
				result = fail(i, "disagreement", "", mObs, "(survived)", "the model predicts a panic that the implementation does not show", "e2:crash-not-shown")
				break
			}
			result = &report.Failure{Kind: "crash-predicted", Ops: append([]string(nil), ops[:i+1]...), At: i, Model: mObs}
			break
		}
		if strings.Contains(mGuide, "race=1") {
			// a Go select had two ready cases: the implementation may take either, the
			// model took one; nothing after this point can be compared, stop the episode
			raced = true
			res.Count("episode:stopped-at-select-race")
			break
		}
		p.curOp.Store(int32(i))
		exec()
		synctest.Wait()
		if w[0] == "start" && tr.Tox > 0 && tr.Tox < 1 && len(tr.DrawUsed) > 0 && !tr.DrawUsed[len(tr.DrawUsed)-1] {
			// the stub did not take its decision from math/rand's package-level source: the
			// scripted draw means nothing to this code, nothing after this point can be compared
			// (the tie is broken; the independence probe of E3 looks for a failing input)
			result = fail(i, "disagreement", "", "one draw from math/rand (Float32) per start of a stub", "none",
				"ToxicStub.Run does not draw its toxicity decision from math/rand's package-level source", "e2:rand-source")
			break
		}
		if !sinkOn && w[0] != "sink" {
			tr.SinkAlways = false
		}
		res.Count("op:" + w[0])
		if model == "ok" {
			continue
		}
		// observe
		if p.intr == "p" {
			select {
			case r := <-p.intrRes:
				if r {
					p.intr = "t"
				} else {
					p.intr = "f"
				}
			default:
			}
		}
		p.mu.Lock()
		em := p.em
		p.em = nil
		p.mu.Unlock()
		var ems []string
		for _, x := range em {
			ems = append(ems, fmt.Sprintf("%d:%s:%d", x.At, hx(x.Data), x.Ts))
			tr.Out = append(tr.Out, x)
		}
		emS := "-"
		if len(ems) > 0 {
			emS = strings.Join(ems, ";")
		}
		closed := p.stub.Closed()
		if closed && tr.ClosedAt < 0 {
			tr.ClosedAt = p.since()
		}
		tr.Samples = append(tr.Samples, Sample{p.since(), closed, i})
		b := func(x bool) string {
			if x {
				return "1"
			}
			return "0"
		}
		got := fmt.Sprintf("t=%d acc=%d run=%s closed=%s intr=%s em=%s take=%s", p.since(), p.accepted.Load(),
			b(p.running.Load() > 0), b(closed), p.intr, emS, takeRes)
		tr.End = p.since()
		if got != mObs && !e.OracleOnly && !raced {
			result = fail(i, "disagreement", "", mObs, got, "stage observables differ ("+pcOf(mGuide)+")", "e2:obs")
			break
		}
		shape = append(shape, pcOf(mGuide))
		res.Count("pc:" + pcOf(mGuide))
	}
	if raced {
		res.Count("episode:select-race(not compared)")
	}
	// model-free oracles on the implementation trace
	if result == nil || result.Kind == "disagreement" {
		for _, o := range e.Oracles {
			if sig, what := o.Check(tr); sig != "" {
				of := fail(len(ops)-1, "oracle", o.Property, "", "", what, sig)
				if result == nil || e.OracleOnly {
					result = of
				}
				break
			}
		}
	}
	if result != nil && result.Kind == "crash-predicted" {
		return nil
	}
	if result == nil {
		res.Episodes++
		key := strings.Join(shape, ">")
		if len(shape) > 2 && e.seen.Add(ops[0], key) {
			res.Distinct++
			res.AddSample(map[string]any{"ops": strings.Join(ops, " ; "), "pc_path": key}, 8)
		}
	}
	return result
}

func pcOf(guide string) string {
	for _, f := range strings.Fields(guide) {
		if strings.HasPrefix(f, "pc=") {
			return f[3:]
		}
	}
	return "?"
}

// cleanup lets every goroutine of the bubble finish, whatever state the episode ended in.
func (e *Engine) cleanup(p *ep, eos bool) {
	close(p.quit)
	done := make(chan struct{})
	go func() { // drain the output
		for {
			select {
			case _, ok := <-p.out:
				if !ok {
					return
				}
			case <-done:
				return
			}
		}
	}()
	go func() { // absorb blocked senders
		for {
			select {
			case _, ok := <-p.in:
				if !ok {
					return
				}
			case <-done:
				return
			}
		}
	}()
	for k := 0; k < 6; k++ {
		synctest.Wait()
		if p.running.Load() > 0 && p.intr != "p" {
			p.intr = "p"
			ch := make(chan bool, 1)
			p.intrRes = ch
			go func() { ch <- p.stub.InterruptToxic() }()
		}
		time.Sleep(20 * time.Second)
		synctest.Wait()
		if p.intr == "p" {
			select {
			case <-p.intrRes:
				p.intr = "-"
			default:
				if p.running.Load() == 0 {
					// InterruptToxic is blocked sending to a stub nobody runs: receive it ourselves
					select {
					case <-p.stub.Interrupt:
					default:
					}
				}
			}
		}
		if p.running.Load() == 0 && p.nsend.Load() == 0 && p.intr != "p" {
			break
		}
	}
	close(done)
	synctest.Wait()
}
