package e2

import (
	"bytes"
	"fmt"
	"strings"
)

// OraclesFor returns the model-free oracles of the named properties (comma separated).
func OraclesFor(props string) []Oracle {
	var out []Oracle
	for _, o := range allOracles {
		if props == "" || strings.Contains(","+props+",", ","+o.Property+",") {
			out = append(out, o)
		}
	}
	return out
}

func cat(es []Emission) []byte {
	var b []byte
	for _, e := range es {
		b = append(b, e.Data...)
	}
	return b
}

// plain: exactly one run, the toxic was applied, never interrupted or reconfigured.
func plain(tr *Trace) bool {
	return len(tr.StartAt) == 1 && len(tr.Active) == 1 && tr.Active[0] && len(tr.IntrAt) == 0 && !tr.Reconfigured
}

const ms = int64(1000000)

var allOracles = []Oracle{
	{"C08", func(tr *Trace) (string, string) {
		if tr.Type != "latency" || !plain(tr) || tr.A1 < 0 || tr.A2 < 0 {
			return "", ""
		}
		L, J := tr.A1, tr.A2
		// content and order
		out := cat(tr.Out)
		in := cat(tr.Inputs)
		if !bytes.HasPrefix(in, out) {
			return "e2:C08:content", "latency changed the stream: out is not a prefix of in"
		}
		// match emissions to inputs in order (empty chunks included: one emission per input)
		for i, o := range tr.Out {
			if i >= len(tr.Inputs) {
				return "e2:C08:count", "more emissions than inputs"
			}
			a := tr.Inputs[i].Ts
			if o.At-a < (L-J)*ms {
				return "e2:C08:early", fmt.Sprintf("chunk %d forwarded %d ns after its stamp, earlier than latency-jitter = %d ms", i, o.At-a, L-J)
			}
			prompt := i < len(tr.AcceptedAt) && tr.AcceptedAt[i] == tr.Inputs[i].At
			if tr.SinkAlways && prompt && o.At-a > (L+J)*ms {
				return "e2:C08:late", fmt.Sprintf("chunk %d forwarded %d ns after its stamp with a ready receiver, later than latency+jitter = %d ms", i, o.At-a, L+J)
			}
			// the outgoing stamp must carry the whole delay (so that delays in series add)
			// and must not lie in the future of the emission
			if o.Ts-a < (L-J)*ms {
				return "e2:C08:stamp", fmt.Sprintf("chunk %d leaves with a stamp only %d ns after its arrival stamp (< latency-jitter = %d ms): a following latency toxic would not add its delay", i, o.Ts-a, L-J)
			}
			if tr.SinkAlways && o.Ts > o.At {
				return "e2:C08:stamp-future", fmt.Sprintf("chunk %d stamped %d ns in the future", i, o.Ts-o.At)
			}
		}
		return "", ""
	}},
	{"C09", func(tr *Trace) (string, string) {
		if tr.Type != "bandwidth" || !plain(tr) || tr.A1 <= 0 {
			return "", ""
		}
		R := tr.A1
		out := cat(tr.Out)
		in := cat(tr.Inputs)
		if !bytes.HasPrefix(in, out) {
			return "e2:C09:content", "bandwidth changed the stream: out is not a prefix of in"
		}
		if len(tr.AcceptedAt) == 0 {
			return "", ""
		}
		t0 := tr.AcceptedAt[0]
		var total int64
		for k, o := range tr.Out {
			total += int64(len(o.Data))
			if int64(len(o.Data)) > 100*R {
				return "e2:C09:instalment", fmt.Sprintf("a piece of %d bytes exceeds 100 ms worth of budget (%d)", len(o.Data), 100*R)
			}
			// C09_rate: 10^6 * bytes <= R * (elapsed_ns + pieces)
			if 1000000*total > R*((o.At-t0)+int64(k+1)) {
				return "e2:C09:rate", fmt.Sprintf("%d bytes forwarded %d ns after the first byte arrived: more than rate %d KB/s allows", total, o.At-t0, R)
			}
		}
		// a single chunk with a ready receiver is not held longer than the rate requires
		if tr.SinkAlways && len(tr.Inputs) == 1 && len(out) == len(in) && len(tr.Out) > 0 {
			n := int64(len(in))
			last := tr.Out[len(tr.Out)-1].At
			if last-t0 > n*1000000/R+1 {
				return "e2:C09:late", fmt.Sprintf("%d bytes took %d ns at rate %d KB/s", n, last-t0, R)
			}
		}
		return "", ""
	}},
	{"C10", func(tr *Trace) (string, string) {
		if tr.Type != "timeout" || !plain(tr) || tr.A1 < 0 {
			return "", ""
		}
		if len(tr.Out) > 0 {
			return "e2:C10:leak", fmt.Sprintf("timeout toxic delivered %d bytes", len(cat(tr.Out)))
		}
		T := tr.A1
		want := int64(-1)
		if T > 0 {
			want = tr.StartAt[0] + T*ms
		}
		if tr.EosAt >= 0 && (want < 0 || tr.EosAt < want) {
			return "", "" // the sender closed first
		}
		if T == 0 && tr.ClosedAt >= 0 {
			return "e2:C10:closed-zero", "timeout=0 closed the connection"
		}
		for _, sm := range tr.Samples {
			if tr.EosAt >= 0 && sm.T >= tr.EosAt {
				break
			}
			if T > 0 && sm.T >= want && !sm.Closed {
				return "e2:C10:not-closed", fmt.Sprintf("timeout %d ms: still open %d ns after the toxic took effect", T, sm.T-tr.StartAt[0])
			}
			if T > 0 && sm.T < want && sm.Closed {
				return "e2:C10:closed-early", fmt.Sprintf("timeout %d ms: closed only %d ns after the toxic took effect", T, sm.T-tr.StartAt[0])
			}
		}
		return "", ""
	}},
	{"C11", func(tr *Trace) (string, string) {
		if tr.Type != "limit_data" || tr.Reconfigured {
			return "", ""
		}
		for _, a := range tr.Active {
			if !a {
				return "", ""
			}
		}
		N := tr.A1
		if N < 0 {
			N = 0
		}
		in := cat(tr.Inputs)
		out := cat(tr.Out)
		lim := int64(len(in))
		if N < lim {
			lim = N
		}
		if int64(len(out)) > lim || !bytes.HasPrefix(in, out) {
			return "e2:C11:content", fmt.Sprintf("limit %d: delivered %d bytes %x of %x", tr.A1, len(out), out, in)
		}
		// everything accepted by the stub and within the limit must come out once the sink drained it
		var acc int64
		var accB []byte
		for i := 0; i < len(tr.AcceptedAt) && i < len(tr.Inputs); i++ {
			acc += int64(len(tr.Inputs[i].Data))
			accB = append(accB, tr.Inputs[i].Data...)
		}
		if tr.SinkAlways {
			want := accB
			if int64(len(want)) > N {
				want = want[:N]
			}
			if !bytes.Equal(out, want) {
				return "e2:C11:exact", fmt.Sprintf("limit %d: receiver got %x, expected the first min(N,total) bytes %x", tr.A1, out, want)
			}
			if acc > 0 && acc >= N && tr.ClosedAt < 0 {
				return "e2:C11:not-closed", fmt.Sprintf("limit %d reached (%d bytes accepted) but the connection is still open", tr.A1, acc)
			}
		}
		if acc < N && tr.EosAt < 0 && tr.ClosedAt >= 0 {
			return "e2:C11:closed-early", fmt.Sprintf("limit %d: closed after only %d bytes", tr.A1, acc)
		}
		return "", ""
	}},
	{"C12", func(tr *Trace) (string, string) {
		if tr.Type != "slicer" || len(tr.Active) == 0 || tr.Reconfigured {
			return "", ""
		}
		for _, a := range tr.Active {
			if !a {
				return "", ""
			}
		}
		a, v, d := tr.A1, tr.A2, tr.A3
		if !(0 <= v && v < a) || d < 0 {
			return "", ""
		}
		in := cat(tr.Inputs)
		out := cat(tr.Out)
		if !bytes.HasPrefix(in, out) {
			return "e2:C12:content", "slicer changed the stream: out is not a prefix of in"
		}
		if len(tr.IntrAt) == 0 {
			for i, o := range tr.Out {
				if len(o.Data) == 0 {
					// an empty input chunk is forwarded as it is; a non-empty chunk never yields an empty piece
					empty := false
					for _, x := range tr.Inputs {
						if len(x.Data) == 0 {
							empty = true
						}
					}
					if !empty {
						return "e2:C12:empty-piece", fmt.Sprintf("piece %d is empty", i)
					}
				}
				if int64(len(o.Data)) > a+v {
					return "e2:C12:size", fmt.Sprintf("piece %d has %d bytes > average_size+size_variation = %d", i, len(o.Data), a+v)
				}
				if tr.SinkAlways && i > 0 && o.At-tr.Out[i-1].At < d*1000 {
					return "e2:C12:gap", fmt.Sprintf("pieces %d and %d are %d ns apart, less than delay %d us", i-1, i, o.At-tr.Out[i-1].At, d)
				}
			}
		}
		return "", ""
	}},
	{"C13", func(tr *Trace) (string, string) {
		switch tr.Type {
		case "slow_close":
			if tr.A1 >= 0 && !tr.Reconfigured && tr.EosAt >= 0 && !plain(tr) {
				// interrupted and restarted (same attributes, every run with the toxic applied): the
				// close is still withheld for at least the delay (each restart waits afresh)
				all := len(tr.Active) > 0
				for _, a := range tr.Active {
					all = all && a
				}
				if all {
					for _, sm := range tr.Samples {
						if sm.Op >= tr.EosOp && sm.Closed && sm.T < tr.EosAt+tr.A1*ms {
							return "e2:C13:close-early-after-interrupt", fmt.Sprintf("close forwarded %d ns after the sender's close, before delay %d ms (the toxic was interrupted during the delay)", sm.T-tr.EosAt, tr.A1)
						}
					}
				}
			}
			if !plain(tr) || tr.A1 < 0 {
				return "", ""
			}
			in := cat(tr.Inputs)
			out := cat(tr.Out)
			if !bytes.HasPrefix(in, out) {
				return "e2:C13:content", "slow_close changed the stream"
			}
			for i, o := range tr.Out {
				if i < len(tr.Inputs) && (o.Ts != tr.Inputs[i].Ts || !bytes.Equal(o.Data, tr.Inputs[i].Data)) {
					return "e2:C13:chunk", "slow_close altered a chunk"
				}
			}
			if tr.ClosedAt >= 0 && tr.EosAt < 0 {
				return "e2:C13:closed-without-eos", "slow_close closed although the sender did not"
			}
			if tr.EosAt >= 0 {
				// the stub sees the close once everything before it was forwarded
				for _, sm := range tr.Samples {
					if sm.Op < tr.EosOp {
						continue
					}
					if sm.Closed && sm.T < tr.EosAt+tr.A1*ms {
						return "e2:C13:close-early", fmt.Sprintf("close forwarded %d ns after the sender's close, before delay %d ms", sm.T-tr.EosAt, tr.A1)
					}
					if tr.SinkAlways && !sm.Closed && sm.T >= tr.EosAt+tr.A1*ms && len(tr.AcceptedAt) == len(tr.Inputs) {
						return "e2:C13:close-late", fmt.Sprintf("close still withheld %d ns after the sender's close (delay %d ms, receiver ready)", sm.T-tr.EosAt, tr.A1)
					}
				}
			}
		case "reset_peer":
			first := int64(-1)
			firstOp := 0
			if len(tr.AcceptedAt) > 0 {
				first = tr.AcceptedAt[0]
				firstOp = tr.AcceptedOp[0]
			}
			if tr.EosAt >= 0 && (first < 0 || tr.EosOp < firstOp) {
				first = tr.EosAt
				firstOp = tr.EosOp
			}
			if !plain(tr) && tr.A1 >= 0 && !tr.Reconfigured && len(tr.Active) >= 1 && tr.Active[0] && first >= 0 &&
				len(tr.IntrAt) > 0 && tr.IntrAt[0] >= first {
				// interrupted (a toxic change on the link) while the reset is pending: the pending
				// reset is not cancelled - the stub still closes when the timeout has elapsed
				horizon := int64(1) << 62
				if len(tr.StartAt) > 1 {
					horizon = tr.StartAt[1]
				}
				for _, sm := range tr.Samples {
					if sm.T >= horizon {
						break
					}
					if !sm.Closed && sm.T >= first+tr.A1*ms && sm.Op >= firstOp {
						return "e2:C13:reset-cancelled-by-interrupt", "reset_peer did not close after its timeout: an interrupt during the wait cancelled the pending reset"
					}
				}
				return "", ""
			}
			if !plain(tr) || tr.A1 < 0 {
				return "", ""
			}
			if len(tr.Out) > 0 {
				return "e2:C13:reset-leak", "reset_peer delivered data"
			}
			if first < 0 && tr.ClosedAt >= 0 {
				return "e2:C13:reset-unprovoked", "reset_peer closed before any data or close from the sender"
			}
			for _, sm := range tr.Samples {
				if first >= 0 && sm.Closed && sm.T < first+tr.A1*ms {
					return "e2:C13:reset-early", "reset_peer closed before its timeout"
				}
				if first >= 0 && !sm.Closed && sm.T >= first+tr.A1*ms && sm.Op >= firstOp {
					return "e2:C13:reset-late", "reset_peer did not close after its timeout"
				}
			}
		}
		return "", ""
	}},
	{"C14", func(tr *Trace) (string, string) {
		// applied as a whole or not at all, decided by draw < toxicity: observable with the
		// black-holing timeout toxic (applied: nothing passes; not applied: everything passes)
		if tr.Type != "timeout" || len(tr.StartAt) != 1 || len(tr.IntrAt) != 0 || tr.Reconfigured || !tr.SinkAlways {
			return "", ""
		}
		if tr.Tox > 0 && tr.Tox < 1 && (len(tr.DrawUsed) == 0 || !tr.DrawUsed[0]) {
			// the decision was not taken from the scripted draw (the code has a random source of
			// its own): what "draw < toxicity" means here is unknown - the model/implementation
			// comparison reports the broken tie, and the independence probe of E3 looks for a
			// failing input
			return "", ""
		}
		out := cat(tr.Out)
		if tr.Active[0] && len(out) > 0 {
			return "e2:C14:applied-leaks", "draw < toxicity but data passed"
		}
		if !tr.Active[0] {
			var acc []byte
			for i := 0; i < len(tr.AcceptedAt) && i < len(tr.Inputs); i++ {
				acc = append(acc, tr.Inputs[i].Data...)
			}
			if !bytes.Equal(out, acc) {
				return "e2:C14:not-applied-affects", fmt.Sprintf("draw >= toxicity (toxicity %v) but the toxic affected the stream", tr.Tox)
			}
		}
		return "", ""
	}},
}
