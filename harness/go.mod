module verifharness

go 1.26

require github.com/Shopify/toxiproxy/v2 v2.0.0

require (
	github.com/mattn/go-colorable v0.1.13 // indirect
	github.com/mattn/go-isatty v0.0.20 // indirect
	github.com/rs/zerolog v1.34.0 // indirect
	golang.org/x/sys v0.31.0 // indirect
)

replace github.com/Shopify/toxiproxy/v2 => /repo
