module verifharness

go 1.26

require (
	github.com/Shopify/toxiproxy/v2 v2.0.0
	github.com/prometheus/client_golang v1.21.1
	github.com/prometheus/client_model v0.6.1
	github.com/rs/zerolog v1.34.0
)

require (
	github.com/beorn7/perks v1.0.1 // indirect
	github.com/cespare/xxhash/v2 v2.3.0 // indirect
	github.com/gorilla/mux v1.8.1 // indirect
	github.com/klauspost/compress v1.17.11 // indirect
	github.com/mattn/go-colorable v0.1.13 // indirect
	github.com/mattn/go-isatty v0.0.20 // indirect
	github.com/munnerz/goautoneg v0.0.0-20191010083416-a7dc8b61c822 // indirect
	github.com/prometheus/common v0.62.0 // indirect
	github.com/prometheus/procfs v0.15.1 // indirect
	github.com/rs/xid v1.6.0 // indirect
	golang.org/x/sys v0.31.0 // indirect
	google.golang.org/protobuf v1.36.1 // indirect
	gopkg.in/tomb.v1 v1.0.0-20141024135613-dd632973f1e7 // indirect
)

replace github.com/Shopify/toxiproxy/v2 => /repo
