module verifharness

go 1.26

require github.com/Shopify/toxiproxy/v2 v2.0.0

replace github.com/Shopify/toxiproxy/v2 => /repo
