//go:build verif

// Package e6 is correspondence engine E6: real toxiproxy proxies on loopback TCP with real
// client and upstream peers, driven through the HTTP handlers (in-process) and compared,
// at quiescence after every operation, with the Lean connection model (Model/Conn.lean):
// what each peer received, whether its connection ended (and by reset where SO_LINGER 0
// decides it), whether a dial is accepted, the registry sizes, the goroutine census of
// toxiproxy code, and the byte counters.  Model-free oracles for C03, C15 and C20.
//
// Abstract operations (= replay lines):
//
//	upstream <u> 0|1 | create <p> <u> 0|1 | enable <p> | disable <p> | delete <p> | setupstream <p> <u>
//	tadd <p> <up|down> <tname> <type> <a1> <a2> <a3> <tox> | tdel <p> <tname> | treset <p>
//	connect <p> <c> | send <c> <up|down> <n> | close <c> <client|server>
package e6

import (
	"bytes"
	"context"
	"encoding/hex"
	"errors"
	"fmt"
	"io"
	"net"
	"net/http"
	"net/http/httptest"
	"os"
	"runtime"
	"sort"
	"strconv"
	"strings"
	"sync"
	"syscall"
	"time"
	"verifharness/ports"

	"github.com/prometheus/client_golang/prometheus"
	dto "github.com/prometheus/client_model/go"
	"github.com/rs/zerolog"

	toxiproxy "github.com/Shopify/toxiproxy/v2"
	"github.com/Shopify/toxiproxy/v2/collectors"

	"verifharness/drv"
	"verifharness/report"
	"verifharness/run"
	"verifharness/vrand"
)

type Engine struct {
	D          *drv.Driver
	OracleOnly bool
	Props      string
	CurFile    string
	seen       run.Seen
}

func New(d *drv.Driver) *Engine { return &Engine{D: d, seen: run.Seen{}} }

func (e *Engine) Name() string { return "E6" }

func hx(b []byte) string {
	if len(b) == 0 {
		return "-"
	}
	return hex.EncodeToString(b)
}

// peer is one end of a TCP connection held by the harness.
type peer struct {
	mu     sync.Mutex
	conn   net.Conn
	recv   []byte
	ended  bool
	rst    bool
	paused bool
	wake   chan struct{}
	parked chan struct{}
	gone   bool // the reader goroutine has returned
	// when the peer last read data, when it saw the end, whether it ever stopped reading
	lastData, endedAt time.Time
	everPaused        bool
	// discard: the proxy has closed this paused peer's socket; it reads again, only to see the
	// end of the connection (what was still in the kernel's buffer is not part of `recv`)
	discard bool
}

// setPaused: a paused peer does not call Read (the kernel's receive buffer fills up).
func (p *peer) setPaused(v bool) {
	p.mu.Lock()
	was := p.paused
	p.paused = v
	if v {
		p.everPaused = true
	}
	if p.wake == nil {
		p.wake = make(chan struct{}, 1)
	}
	if p.parked == nil {
		p.parked = make(chan struct{}, 1)
	}
	gone := p.gone
	p.mu.Unlock()
	if p.conn == nil {
		return
	}
	if v && !was {
		select {
		case <-p.parked:
		default:
		}
	}
	if v {
		// kick the reader out of a blocked Read, and wait until it is parked (a Read that is
		// being woken by the deadline could still pick up data that arrives right now)
		p.conn.SetReadDeadline(time.Now())
		if !was && !gone {
			select {
			case <-p.parked:
			case <-time.After(time.Second):
			}
		}
	} else {
		p.conn.SetReadDeadline(time.Time{})
		select {
		case p.wake <- struct{}{}:
		default:
		}
	}
}

func (p *peer) reader() {
	buf := make([]byte, 65536)
	p.mu.Lock()
	if p.wake == nil {
		p.wake = make(chan struct{}, 1)
	}
	if p.parked == nil {
		p.parked = make(chan struct{}, 1)
	}
	p.mu.Unlock()
	defer func() {
		p.mu.Lock()
		p.gone = true
		p.mu.Unlock()
	}()
	for {
		p.mu.Lock()
		paused := p.paused
		p.mu.Unlock()
		if paused {
			select {
			case p.parked <- struct{}{}:
			default:
			}
			<-p.wake
			continue
		}
		n, err := p.conn.Read(buf)
		if ne, ok := err.(net.Error); ok && ne.Timeout() {
			p.mu.Lock()
			p.recv = append(p.recv, buf[:n]...)
			p.mu.Unlock()
			continue
		}
		p.mu.Lock()
		if !p.discard {
			p.recv = append(p.recv, buf[:n]...)
		}
		if n > 0 {
			p.lastData = time.Now()
		}
		if err != nil {
			p.ended = true
			p.endedAt = time.Now()
			if errors.Is(err, syscall.ECONNRESET) {
				p.rst = true
			}
			p.mu.Unlock()
			return
		}
		p.mu.Unlock()
	}
}

func (p *peer) str(maskRst bool) string {
	if p == nil {
		return "-,0,0"
	}
	p.mu.Lock()
	defer p.mu.Unlock()
	b := func(x bool) string {
		if x {
			return "1"
		}
		return "0"
	}
	r := p.ended && p.rst
	if maskRst {
		r = false
	}
	return fmt.Sprintf("%s,%s,%s", hx(p.recv), b(p.ended), b(r))
}

type upServer struct {
	ln       net.Listener
	addr     string
	accepted chan net.Conn
	mu       sync.Mutex
	stalled  bool
	resume   chan struct{}
	fillers  map[string]net.Conn
}

// stall makes further dials to this server block: the listen backlog is shrunk to 0, the
// accept loop stops accepting and the accept queue is filled up with the harness's own
// connections, so the kernel drops the next SYN (it is retransmitted after about a second).
// Returns false if the queue could not be filled.
func (u *upServer) stall() bool {
	u.mu.Lock()
	u.stalled = true
	u.resume = make(chan struct{})
	u.fillers = map[string]net.Conn{}
	u.mu.Unlock()
	tl := u.ln.(*net.TCPListener)
	rc, err := tl.SyscallConn()
	if err != nil {
		return false
	}
	rc.Control(func(fd uintptr) { syscall.Listen(int(fd), 0) })
	tl.SetDeadline(time.Now()) // kick the accept loop out of Accept
	time.Sleep(5 * time.Millisecond)
	for i := 0; i < 16; i++ {
		c, err := net.DialTimeout("tcp", u.addr, 250*time.Millisecond)
		if err != nil {
			return true
		}
		u.mu.Lock()
		u.fillers[c.LocalAddr().String()] = c
		u.mu.Unlock()
	}
	return false
}

func (u *upServer) release() {
	tl := u.ln.(*net.TCPListener)
	if rc, err := tl.SyscallConn(); err == nil {
		rc.Control(func(fd uintptr) { syscall.Listen(int(fd), 128) })
	}
	tl.SetDeadline(time.Time{})
	u.mu.Lock()
	u.stalled = false
	close(u.resume)
	u.mu.Unlock()
}

func (u *upServer) acceptLoop(ln net.Listener) {
	for {
		u.mu.Lock()
		st, rs := u.stalled, u.resume
		u.mu.Unlock()
		if st {
			<-rs
			continue
		}
		c, err := ln.Accept()
		if err != nil {
			if ne, ok := err.(net.Error); ok && ne.Timeout() {
				time.Sleep(time.Millisecond)
				continue
			}
			return
		}
		u.mu.Lock()
		fc, isFiller := u.fillers[c.RemoteAddr().String()]
		u.mu.Unlock()
		if isFiller {
			fc.Close()
			c.Close()
			continue
		}
		u.accepted <- c
	}
}

// setLabels records the label sets the byte counters of this connection's links must carry:
// the proxy's name, listen address and upstream at the time the connection is made.
func (w *world) setLabels(cn *conn) {
	p := w.proxy(cn.proxy)
	if p == nil {
		return
	}
	p.Lock()
	listen, up := p.Listen, p.Upstream
	p.Unlock()
	for sym, addr := range w.upAddr {
		if addr == up {
			up = sym
		}
	}
	cn.labUp = fmt.Sprintf("upstream,%s,%s,%s", cn.proxy, listen, up)
	cn.labDn = fmt.Sprintf("downstream,%s,%s,%s", cn.proxy, listen, up)
	w.pushed[cn.labUp] += 0
	w.pushed[cn.labDn] += 0
}

// labelOracle (C20): every counter series carries the name, listen address and upstream of
// a proxy configuration under which a connection was made, and none has counted more bytes
// than the peers wrote on the connections made under that configuration.
func (w *world) labelOracle(i int, fail func(int, string, string, string, string, string, string) *report.Failure, got string) *report.Failure {
	recv, sent := map[string]int64{}, map[string]int64{}
	noLinkGoroutines := false
	for _, f := range strings.Fields(got) {
		if strings.HasPrefix(f, "G=") {
			g := strings.Split(f[2:], "/")
			noLinkGoroutines = len(g) >= 3 && g[0] == "0" && g[1] == "0" && g[2] == "0"
		}
		if !(strings.HasPrefix(f, "R[") || strings.HasPrefix(f, "S[")) {
			continue
		}
		k, v, ok := strings.Cut(f[2:], "]=")
		if !ok {
			continue
		}
		n, _ := strconv.ParseInt(v, 10, 64)
		if f[0] == 'R' {
			recv[k] = n
		} else {
			sent[k] = n
		}
		max, known := w.pushed[k]
		if !known {
			return fail(i, "oracle", "C20", "a series per (direction, proxy, listener, upstream) in use", f,
				"a byte counter carries labels under which no connection was ever made", "e6:C20:unknown-labels")
		}
		if n > max {
			return fail(i, "oracle", "C20", fmt.Sprintf("at most %d", max), f,
				fmt.Sprintf("a byte counter shows %d bytes, but only %d bytes were sent on connections made under its labels", n, max), "e6:C20:overcount")
		}
	}
	// ... and in a history without toxics, pauses, aborts or unawaited sends every write of the proxy
	// succeeded: what the receiving peers got has all been counted as sent
	if noLinkGoroutines && w.simple {
		need := map[string]int64{}
		for _, n := range w.corder {
			c := w.conns[n]
			c.server.mu.Lock()
			need[c.labUp] += int64(len(c.server.recv))
			c.server.mu.Unlock()
			c.client.mu.Lock()
			need[c.labDn] += int64(len(c.client.recv))
			c.client.mu.Unlock()
		}
		for k, nb := range need {
			if k != "" && sent[k] < nb {
				return fail(i, "oracle", "C20", fmt.Sprintf("sent >= %d", nb), fmt.Sprintf("S[%s]=%d", k, sent[k]),
					fmt.Sprintf("with no link goroutine left, the receiving peers of the connections made under these labels hold %d bytes, but the sent-bytes counter shows %d: bytes the proxy wrote were never counted", nb, sent[k]), "e6:C20:undercount")
			}
		}
	}
	// once every link goroutine has ended both counters of a series are final: what was written
	// to the receiving peers had been read from the sending peers first (no toxic creates bytes)
	if noLinkGoroutines {
		for k, sn := range sent {
			if sn > recv[k] {
				return fail(i, "oracle", "C20", fmt.Sprintf("received >= sent = %d", sn), fmt.Sprintf("R[%s]=%d S[%s]=%d", k, recv[k], k, sn),
					fmt.Sprintf("with no link goroutine left, the sent-bytes counter of a series shows %d bytes but its received-bytes counter only %d: bytes that were relayed were never counted as received", sn, recv[k]), "e6:C20:sent-exceeds-received")
			}
		}
	}
	return nil
}

// sinkBlocked counts the links whose sink goroutine is blocked inside a socket Write
// (waiting for the network).
func sinkBlocked() int {
	n := runtime.Stack(stackBuf, true)
	k := 0
	for _, g := range strings.Split(string(stackBuf[:n]), "\n\n") {
		if strings.Contains(g, "toxiproxy/v2.(*ToxicLink).write") && strings.Contains(g, "[IO wait") && strings.Contains(g, ").Write(") {
			k++
		}
	}
	return k
}

// facingSndBuf sets the send buffer of the proxy's socket that faces peer pr of connection cn
// (k = 0: the client, 1: the upstream server).
func (w *world) facingSndBuf(cn *conn, k int, pr *peer, size int) {
	p := w.proxy(cn.proxy)
	if p == nil || pr == nil || pr.conn == nil {
		return
	}
	toxiproxy.VerifEachConn(p, func(_ string, nc net.Conn) {
		match := (k == 0 && nc.RemoteAddr().String() == pr.conn.LocalAddr().String()) ||
			(k == 1 && nc.LocalAddr().String() == pr.conn.RemoteAddr().String())
		if tc, ok := nc.(*net.TCPConn); ok && match {
			tc.SetWriteBuffer(size)
		}
	})
}

// releasePredictedEnded: a paused peer cannot see the end of its connection. Where the model
// predicts that the connection has ended at that peer, the peer reads again — in discard mode:
// what was still in the kernel's buffer is not part of `recv` — so that the end can be
// observed (the model only decides when to look; whether the end is there is observed).
func (w *world) releasePredictedEnded(want string) {
	for _, f := range strings.Fields(want) {
		name, rest, ok := strings.Cut(f, ":cli=")
		if !ok {
			continue
		}
		parts := strings.Split(rest, ";srv=")
		cn := w.conns[name]
		if cn == nil || len(parts) != 2 {
			continue
		}
		for k, pr := range []*peer{cn.client, cn.server} {
			fs := strings.Split(parts[k], ",")
			if pr == nil || pr.conn == nil || len(fs) < 2 || fs[1] != "1" {
				continue
			}
			pr.mu.Lock()
			paused := pr.paused
			if paused {
				pr.discard = true
			}
			pr.mu.Unlock()
			if paused {
				pr.setPaused(false)
			}
		}
	}
}

// stallStop (C03: a client dialling concurrently with the state change): client cname is
// accepted by proxy pname while the upstream dial cannot complete; the stopping request is
// issued; the upstream is released 200 ms later.
func (w *world) stallStop(pname, cname, how, addr string, connectRes *string) {
	p := w.proxy(pname)
	var u *upServer
	if p != nil {
		for sym, a := range w.upAddr {
			if a == p.Upstream {
				u = w.ups[sym]
			}
		}
	}
	if u == nil || u.ln == nil {
		return
	}
	for len(u.accepted) > 0 {
		(<-u.accepted).Close()
	}
	if !u.stall() {
		u.release()
		*connectRes = "harness-could-not-stall"
		return
	}
	c, err := net.DialTimeout("tcp", addr, time.Second)
	if err != nil {
		u.release()
		*connectRes = "refused"
		return
	}
	cl := &peer{conn: c}
	go cl.reader()
	cn := &conn{name: cname, proxy: pname, client: cl, ctr: byte(1 + 60*len(w.conns))}
	w.setLabels(cn)
	time.Sleep(60 * time.Millisecond) // the accept loop takes the client and starts dialling
	go func() {
		time.Sleep(200 * time.Millisecond)
		u.release()
	}()
	if how == "disable" {
		w.api("PATCH", "/proxies/"+pname, `{"enabled":false}`)
	} else {
		w.api("DELETE", "/proxies/"+pname, "")
		for k, n := range w.porder {
			if n == pname {
				w.porder = append(w.porder[:k], w.porder[k+1:]...)
				break
			}
		}
	}
	w.stopReturned = time.Now()
	select {
	case sc := <-u.accepted:
		sp := &peer{conn: sc}
		go sp.reader()
		cn.server = sp
	case <-time.After(4 * time.Second):
		// the dial never arrived: the pair has no upstream side
		sp := &peer{ended: true}
		cn.server = sp
	}
	w.conns[cname] = cn
	w.corder = append(w.corder, cname)
}

type conn struct {
	name   string
	proxy  string
	client *peer
	server *peer
	ctr    byte
	old    bool   // made through a proxy object that a populate has since replaced
	labUp  string // counter labels of its two links: the proxy's configuration when it was accepted
	labDn  string
}

func freeAddr() string { return "127.0.0.1:" + strconv.Itoa(ports.Free()) }

// census counts the goroutines that are running toxiproxy code, by role.
var stackBuf = make([]byte, 1<<22)

func census() (src, stubs, sinks, loops int, sites map[string]int) {
	n := runtime.Stack(stackBuf, true)
	buf := stackBuf
	sites = map[string]int{}
	for _, g := range strings.Split(string(buf[:n]), "\n\n") {
		switch {
		case strings.Contains(g, "toxiproxy/v2.(*ToxicLink).read"):
			src++
			sites["link.read:"+blockedAt(g)]++
		case strings.Contains(g, "toxics.(*ToxicStub).Run"):
			stubs++
			sites["stub.Run:"+blockedAt(g)]++
		case strings.Contains(g, "toxiproxy/v2.(*ToxicLink).write"):
			sinks++
			sites["link.write:"+blockedAt(g)]++
		case strings.Contains(g, "toxiproxy/v2.(*Proxy).server"), strings.Contains(g, "toxiproxy/v2.(*Proxy).freeBlocker"):
			loops++
		case strings.Contains(g, "github.com/Shopify/toxiproxy/v2") && !strings.Contains(g, "verifharness/"):
			// any other goroutine running toxiproxy code (the drain goroutines of a closed stub
			// and of a failed sink, helpers of RemoveToxic, ...)
			sites["other:"+blockedAt(g)]++
		}
	}
	return
}

func blockedAt(g string) string {
	// first toxiproxy frame of the stack
	for _, l := range strings.Split(g, "\n") {
		l = strings.TrimSpace(l)
		if strings.HasPrefix(l, "github.com/Shopify/toxiproxy/v2") {
			if i := strings.Index(l, "("); i > 0 {
				l = l[:strings.LastIndex(l, "(")]
			}
			return strings.TrimPrefix(l, "github.com/Shopify/toxiproxy/v2")
		}
	}
	return "?"
}

func fdCount() int {
	ents, err := os.ReadDir("/proc/self/fd")
	if err != nil {
		return -1
	}
	return len(ents)
}

type world struct {
	e            *Engine
	srv          *toxiproxy.ApiServer
	h            http.Handler
	reg          *prometheus.Registry
	ups          map[string]*upServer // symbolic name -> server (nil listener = refusing)
	upAddr       map[string]string
	proxies      map[string]string // name -> listen address
	porder       []string
	conns        map[string]*conn
	corder       []string
	lastConn     string
	pushed       map[string]int64 // label set -> bytes the harness's peers wrote on connections started under it
	base         [4]int
	stopReturned time.Time
	// simple: the history has no toxic, no pause, no abort, no unawaited send and no stalled stop -
	// every write of the proxy succeeds and every link is idle when a proxy is stopped
	simple bool
	stopAt map[string]time.Time // proxy -> when its last disable / delete request returned
}

func (w *world) api(method, path, body string) int {
	var rd io.Reader
	if body != "" {
		rd = strings.NewReader(body)
	}
	req := httptest.NewRequest(method, path, rd)
	req.Header.Set("User-Agent", "verif-harness")
	rec := httptest.NewRecorder()
	w.h.ServeHTTP(rec, req)
	return rec.Code
}

func (w *world) proxy(name string) *toxiproxy.Proxy {
	p, err := w.srv.Collection.Get(name)
	if err != nil {
		return nil
	}
	return p
}

func attrsJSON(ty string, a1, a2, a3 int64) string {
	switch ty {
	case "latency":
		return fmt.Sprintf(`{"latency":%d,"jitter":%d}`, a1, a2)
	case "bandwidth":
		return fmt.Sprintf(`{"rate":%d}`, a1)
	case "slicer":
		return fmt.Sprintf(`{"average_size":%d,"size_variation":%d,"delay":%d}`, a1, a2, a3)
	case "slow_close":
		return fmt.Sprintf(`{"delay":%d}`, a1)
	case "timeout", "reset_peer":
		return fmt.Sprintf(`{"timeout":%d}`, a1)
	case "limit_data":
		return fmt.Sprintf(`{"bytes":%d}`, a1)
	}
	return "{}"
}

// observe builds the observable string in the model's format. modelRst: per connection
// name whether the model predicts a reset for client / server (resets the model does not
// predict — e.g. a close with unread data in the kernel buffer — are not compared).
func (w *world) observe(res string, model string) string {
	predictRst := map[string]bool{}
	for _, f := range strings.Fields(model) {
		if name, rest, ok := strings.Cut(f, ":cli="); ok {
			parts := strings.Split(rest, ";srv=")
			if len(parts) == 2 {
				predictRst[name+"/c"] = strings.HasSuffix(parts[0], ",1")
				predictRst[name+"/s"] = strings.HasSuffix(parts[1], ",1")
			}
		}
	}
	var cs []string
	for _, n := range w.corder {
		c := w.conns[n]
		cs = append(cs, fmt.Sprintf("%s:cli=%s;srv=%s", n, c.client.str(!predictRst[n+"/c"]), c.server.str(!predictRst[n+"/s"])))
	}
	sort.Strings(cs)
	var ps []string
	for _, n := range w.porder {
		p := w.proxy(n)
		if p == nil {
			continue
		}
		cn, ln := toxiproxy.VerifCounts(p)
		en := "0"
		p.Lock()
		if p.Enabled {
			en = "1"
		}
		p.Unlock()
		ps = append(ps, fmt.Sprintf("%s:en=%s,conns=%d,links=%d", n, en, cn, ln))
	}
	sort.Strings(ps)
	a, b, c, d, _ := census()
	a, b, c, d = a-w.base[0], b-w.base[1], c-w.base[2], d-w.base[3] // goroutines left by earlier episodes
	var ms []string
	mfs, _ := w.reg.Gather()
	for _, mf := range mfs {
		tag := ""
		switch mf.GetName() {
		case "toxiproxy_proxy_received_bytes_total":
			tag = "R"
		case "toxiproxy_proxy_sent_bytes_total":
			tag = "S"
		default:
			continue
		}
		for _, m := range mf.Metric {
			ms = append(ms, fmt.Sprintf("%s[%s]=%d", tag, w.labels(m), int64(m.GetCounter().GetValue())))
		}
	}
	sort.Strings(ms)
	return strings.Join(strings.Fields(fmt.Sprintf("%s C %s P %s G=%d/%d/%d/%d M %s", res, strings.Join(cs, " "), strings.Join(ps, " "), a, b, c, d, strings.Join(ms, " "))), " ")
}

func (w *world) labels(m *dto.Metric) string {
	lv := map[string]string{}
	for _, l := range m.Label {
		lv[l.GetName()] = l.GetValue()
	}
	up := lv["upstream"]
	for sym, addr := range w.upAddr {
		if addr == up {
			up = sym
		}
	}
	return fmt.Sprintf("%s,%s,%s,%s", lv["direction"], lv["proxy"], lv["listener"], up)
}

// reconcile: where the model gives a counter only as a range lo..hi (a source that the proxy
// cut off: how much it had read depends on timing), accept any observed value inside it.
func reconcile(want, got string) string {
	if !strings.Contains(want, "..") {
		return want
	}
	gv := map[string]int64{}
	for _, f := range strings.Fields(got) {
		if k, v, ok := strings.Cut(f, "]="); ok {
			n, _ := strconv.ParseInt(v, 10, 64)
			gv[k] = n
		}
	}
	fs := strings.Fields(want)
	for i, f := range fs {
		k, v, ok := strings.Cut(f, "]=")
		if !ok || !strings.Contains(v, "..") {
			continue
		}
		lo, hi, _ := strings.Cut(v, "..")
		l, _ := strconv.ParseInt(lo, 10, 64)
		h, _ := strconv.ParseInt(hi, 10, 64)
		if x, ok := gv[k]; ok && x >= l && x <= h {
			fs[i] = fmt.Sprintf("%s]=%d", k, x)
		}
	}
	return strings.Join(fs, " ")
}

// canonModel rewrites the model's reply into the comparable form: proxies without the
// per-proxy goroutine split, the goroutine census as one total, counters sorted.
func canonModel(m string) string {
	head, rest, _ := strings.Cut(m, " C ")
	cpart, rest2, _ := strings.Cut(rest, " P ")
	ppart, mpart, _ := strings.Cut(rest2, " M ")
	var ps []string
	var g [4]int
	for _, f := range strings.Fields(ppart) {
		if strings.HasPrefix(f, "gone=") {
			x := strings.Split(strings.TrimPrefix(f, "gone="), "/")
			for i := 0; i < 3 && i < len(x); i++ {
				v, _ := strconv.Atoi(x[i])
				g[i] += v
			}
			continue
		}
		i := strings.Index(f, ",g=")
		if i < 0 {
			ps = append(ps, f)
			continue
		}
		x := strings.Split(f[i+3:], "/")
		for k := 0; k < 4 && k < len(x); k++ {
			v, _ := strconv.Atoi(x[k])
			g[k] += v
		}
		ps = append(ps, f[:i])
	}
	ms := strings.Fields(mpart)
	sort.Strings(ms)
	cs := strings.Fields(cpart)
	sort.Strings(cs)
	sort.Strings(ps)
	return strings.Join(strings.Fields(fmt.Sprintf("%s C %s P %s G=%d/%d/%d/%d M %s", head, strings.Join(cs, " "), strings.Join(ps, " "), g[0], g[1], g[2], g[3], strings.Join(ms, " "))), " ")
}

func (e *Engine) Run(ops []string, res *report.Result) *report.Failure {
	if e.CurFile != "" {
		os.WriteFile(e.CurFile, []byte(strings.Join(ops, "\n")+"\n"), 0o644)
	}
	e.D.Reset()
	vrand.Reset()
	vrand.SetFloat(0.5)
	fail := func(at int, kind, prop, model, implS, what, sig string) *report.Failure {
		return &report.Failure{Kind: kind, Property: prop, Ops: append([]string(nil), ops...), At: at,
			Model: model, Impl: implS, What: what, Sig: sig}
	}
	g0a, g0b, g0c, g0d, sites0 := census()
	fd0 := fdCount()
	reg := prometheus.NewRegistry()
	mc := toxiproxy.NewMetricsContainer(reg)
	mc.ProxyMetrics = collectors.NewProxyMetricCollectors()
	// Routes() registers the collectors with the registry (metricsContainer.handler)
	logger := zerolog.Nop()
	srv := toxiproxy.NewServer(mc, logger)
	w := &world{e: e, srv: srv, h: srv.Routes(), reg: reg, ups: map[string]*upServer{}, upAddr: map[string]string{},
		proxies: map[string]string{}, conns: map[string]*conn{}, pushed: map[string]int64{}, stopAt: map[string]time.Time{}, base: [4]int{g0a, g0b, g0c, g0d}}
	w.simple = true
	for _, op := range ops {
		switch strings.Fields(op + " x")[0] {
		case "upstream", "create", "connect", "send", "close", "disable", "delete", "enable", "setupstream", "populate":
		default:
			w.simple = false
		}
	}
	var result *report.Failure
	var shape []string
	defer func() {
		for _, c := range w.conns {
			c.client.conn.Close()
			c.client.setPaused(false)
			if c.server != nil && c.server.conn != nil {
				c.server.conn.Close()
				c.server.setPaused(false)
			}
		}
		srv.Collection.Clear()
		for _, u := range w.ups {
			if u.ln != nil {
				u.ln.Close()
			}
		}
		// let what this episode started wind down before the next one takes its baseline
		// (an episode that stopped at a failure skips the end-of-episode wait)
		deadline := time.Now().Add(3 * time.Second)
		for time.Now().Before(deadline) {
			a, b, c, d, _ := census()
			if a <= g0a && b <= g0b && c <= g0c && d <= g0d {
				break
			}
			time.Sleep(5 * time.Millisecond)
		}
	}()
	wantsProp := func(p string) bool { return e.Props == "" || strings.Contains(","+e.Props+",", ","+p+",") }
	harnessStuck := false
	pauseIssued := false
	wasBlocked := 0
	for i, op := range ops {
		if harnessStuck {
			res.Count("episode:stopped-harness-write-blocked")
			break
		}
		f := strings.Fields(op)
		res.Ops++
		line := op
		connectRes := "-"
		replacedAddr := ""
		replacedNow := false // this very populate replaced the proxy object (listen or upstream differ)
		reAddressed := false // this very update changed the proxy's upstream
		var exec func()
		switch f[0] {
		case "upstream":
			exec = func() {
				u := w.ups[f[1]]
				if u == nil {
					u = &upServer{addr: freeAddr(), accepted: make(chan net.Conn, 64)}
					w.ups[f[1]] = u
					w.upAddr[f[1]] = u.addr
				}
				if f[2] == "1" && u.ln == nil {
					ln, err := net.Listen("tcp", u.addr)
					if err != nil {
						panic(err)
					}
					u.ln = ln
					go u.acceptLoop(ln)
				} else if f[2] == "0" && u.ln != nil {
					u.ln.Close()
					u.ln = nil
				}
			}
		case "create":
			if _, ok := w.upAddr[f[2]]; !ok {
				res.Count("skipped:no-upstream")
				continue
			}
			addr := freeAddr()
			line = fmt.Sprintf("create %s %s %s %s", f[1], addr, f[2], f[3])
			exec = func() {
				en := "true"
				if f[3] == "0" {
					en = "false"
				}
				w.api("POST", "/proxies", fmt.Sprintf(`{"name":%q,"listen":%q,"upstream":%q,"enabled":%s}`, f[1], addr, w.upAddr[f[2]], en))
				w.proxies[f[1]] = addr
				w.porder = append(w.porder, f[1])
			}
		case "enable":
			exec = func() { w.api("PATCH", "/proxies/"+f[1], `{"enabled":true}`) }
		case "disable":
			exec = func() {
				w.api("PATCH", "/proxies/"+f[1], `{"enabled":false}`)
				w.stopAt[f[1]] = time.Now()
			}
		case "delete":
			exec = func() {
				w.api("DELETE", "/proxies/"+f[1], "")
				w.stopAt[f[1]] = time.Now()
				for k, n := range w.porder {
					if n == f[1] {
						w.porder = append(w.porder[:k], w.porder[k+1:]...)
						break
					}
				}
			}
		case "populate":
			// populate <p> <u> <0|1> <same|new>: one entry; listen = the proxy's current address or a fresh one
			if _, ok := w.upAddr[f[2]]; !ok {
				res.Count("skipped:no-upstream")
				continue
			}
			oldAddr := w.proxies[f[1]]
			existed := false
			for _, n := range w.porder {
				if n == f[1] {
					existed = true
				}
			}
			if !existed {
				oldAddr = ""
			}
			addr := oldAddr
			if !existed || f[4] == "new" {
				addr = freeAddr()
			}
			line = fmt.Sprintf("populate %s %s %s %s", f[1], addr, f[2], f[3])
			replacedAddr = oldAddr
			exec = func() {
				en := "true"
				if f[3] == "0" {
					en = "false"
				}
				if p := w.proxy(f[1]); p != nil {
					p.Lock()
					differs := p.Listen != addr || p.Upstream != w.upAddr[f[2]]
					p.Unlock()
					replacedNow = differs
					if differs {
						for _, cn := range w.conns {
							if cn.proxy == f[1] {
								cn.old = true
							}
						}
					}
				}
				w.api("POST", "/populate", fmt.Sprintf(`[{"name":%q,"listen":%q,"upstream":%q,"enabled":%s}]`, f[1], addr, w.upAddr[f[2]], en))
				if !existed {
					w.porder = append(w.porder, f[1])
				}
				w.proxies[f[1]] = addr
			}
		case "setupstream":
			if _, ok := w.upAddr[f[2]]; !ok {
				res.Count("skipped:no-upstream")
				continue
			}
			replacedAddr = w.proxies[f[1]]
			exec = func() {
				// a change of the upstream re-addresses the proxy: the connections made through it
				// so far are dropped (C03), the listener comes back on the same address
				if p := w.proxy(f[1]); p != nil {
					p.Lock()
					differs := p.Upstream != w.upAddr[f[2]]
					p.Unlock()
					reAddressed = differs
					if differs {
						for _, cn := range w.conns {
							if cn.proxy == f[1] {
								cn.old = true
							}
						}
					}
				}
				w.api("PATCH", "/proxies/"+f[1], fmt.Sprintf(`{"upstream":%q}`, w.upAddr[f[2]]))
			}
		case "tadd":
			a1, _ := strconv.ParseInt(f[5], 10, 64)
			a2, _ := strconv.ParseInt(f[6], 10, 64)
			a3, _ := strconv.ParseInt(f[7], 10, 64)
			st := "upstream"
			if f[2] == "down" {
				st = "downstream"
			}
			body := fmt.Sprintf(`{"name":%q,"type":%q,"stream":%q,"toxicity":%s,"attributes":%s}`, f[3], f[4], st, f[8], attrsJSON(f[4], a1, a2, a3))
			exec = func() { w.api("POST", "/proxies/"+f[1]+"/toxics", body) }
		case "tdel":
			exec = func() { w.api("DELETE", "/proxies/"+f[1]+"/toxics/"+f[2], "") }
		case "treset":
			exec = func() {
				if p := w.proxy(f[1]); p != nil {
					p.Toxics.ResetToxics(context.Background())
				}
			}
		case "connect":
			addr, ok := w.proxies[f[1]]
			if !ok || w.conns[f[2]] != nil {
				res.Count("skipped:connect")
				continue
			}
			exec = func() {
				p := w.proxy(f[1])
				var u *upServer
				if p != nil {
					for sym, a := range w.upAddr {
						if a == p.Upstream {
							u = w.ups[sym]
						}
					}
				}
				// drop stale accepts
				if u != nil {
					for len(u.accepted) > 0 {
						(<-u.accepted).Close()
					}
				}
				c, err := net.DialTimeout("tcp", addr, time.Second)
				if err != nil {
					connectRes = "refused"
					return
				}
				cl := &peer{conn: c}
				go cl.reader()
				cn := &conn{name: f[2], proxy: f[1], client: cl, ctr: byte(1 + 60*len(w.conns))}
				// either the upstream accepts, or the proxy closes the client (dial failed)
				deadline := time.After(2 * time.Second)
				for cn.server == nil {
					var acc chan net.Conn
					if u != nil {
						acc = u.accepted
					}
					select {
					case sc := <-acc:
						sp := &peer{conn: sc}
						go sp.reader()
						cn.server = sp
						connectRes = "ok"
					case <-time.After(5 * time.Millisecond):
						cl.mu.Lock()
						ended := cl.ended
						cl.mu.Unlock()
						if ended {
							connectRes = "dialfail"
							c.Close()
							return
						}
					case <-deadline:
						connectRes = "timeout"
						c.Close()
						return
					}
				}
				w.setLabels(cn)
				w.conns[f[2]] = cn
				w.corder = append(w.corder, f[2])
			}
		case "send", "sendnw":
			c := w.conns[f[1]]
			if c == nil {
				res.Count("skipped:no-conn")
				continue
			}
			n, _ := strconv.Atoi(f[3])
			data := make([]byte, n)
			for k := range data {
				data[k] = c.ctr
				c.ctr++
				if c.ctr == 0 {
					c.ctr = 1
				}
			}
			line = fmt.Sprintf("%s %s %s %s", f[0], f[1], f[2], hx(data))
			exec = func() {
				pc := c.server.conn
				if f[2] == "up" {
					pc = c.client.conn
					w.pushed[c.labUp] += int64(len(data))
				} else {
					w.pushed[c.labDn] += int64(len(data))
				}
				pc.SetWriteDeadline(time.Now().Add(3 * time.Second))
				if _, err := pc.Write(data); err != nil {
					if ne, ok := err.(net.Error); ok && ne.Timeout() {
						harnessStuck = true
					}
				}
			}
		case "abort":
			c := w.conns[f[1]]
			if c == nil {
				res.Count("skipped:no-conn")
				continue
			}
			exec = func() {
				pr := c.client
				if f[2] == "server" {
					pr = c.server
				}
				if tc, ok := pr.conn.(*net.TCPConn); ok {
					tc.SetLinger(0)
				}
				pr.conn.Close()
				pr.setPaused(false)
			}
		case "pause":
			c := w.conns[f[1]]
			if c == nil {
				res.Count("skipped:no-conn")
				continue
			}
			// more than the kernel absorbs on one loopback connection once the proxy's send buffer
			// has been shrunk (below; the peer's receive buffer is left alone — shrinking it clamps
			// the window for good): the proxy's write towards the paused peer blocks
			const fill = 400000
			data := make([]byte, fill)
			for k := range data {
				data[k] = c.ctr
				c.ctr++
				if c.ctr == 0 {
					c.ctr = 1
				}
			}
			line = fmt.Sprintf("pause %s %s %s", f[1], f[2], hx(data))
			exec = func() {
				pr, other := c.client, c.server
				w.pushed[c.labDn] += int64(len(data))
				if f[2] == "server" {
					pr, other = c.server, c.client
					w.pushed[c.labDn] -= int64(len(data))
					w.pushed[c.labUp] += int64(len(data))
				}
				pr.setPaused(true)
				k := 0
				if f[2] == "server" {
					k = 1
				}
				w.facingSndBuf(c, k, pr, 4096)
				other.conn.SetWriteDeadline(time.Now().Add(3 * time.Second))
				if _, err := other.conn.Write(data); err != nil {
					if ne, ok := err.(net.Error); ok && ne.Timeout() {
						harnessStuck = true
					}
				}
				pauseIssued = true
			}
		case "resume":
			c := w.conns[f[1]]
			if c == nil {
				res.Count("skipped:no-conn")
				continue
			}
			exec = func() {
				pr := c.client
				if f[2] == "server" {
					pr = c.server
				}
				// undo the buffer shrinking of `pause`
				k := 0
				if f[2] == "server" {
					k = 1
				}
				pr.mu.Lock()
				was := pr.paused
				pr.mu.Unlock()
				if was {
					w.facingSndBuf(c, k, pr, 1<<20)
				}
				pr.setPaused(false)
			}
		case "stallstop":
			addr, ok := w.proxies[f[1]]
			if !ok || w.conns[f[2]] != nil {
				res.Count("skipped:stallstop")
				continue
			}
			exec = func() { w.stallStop(f[1], f[2], f[3], addr, &connectRes) }
		case "close", "closenw":
			c := w.conns[f[1]]
			if c == nil {
				res.Count("skipped:no-conn")
				continue
			}
			exec = func() {
				pc := c.client.conn
				if f[2] == "server" {
					pc = c.server.conn
				}
				if tc, ok := pc.(*net.TCPConn); ok {
					tc.CloseWrite()
				}
			}
		default:
			return nil
		}
		model := e.D.Ask(line)
		if strings.HasPrefix(model, "bad-op") {
			res.Count("skipped:" + strings.ReplaceAll(model, " ", "_"))
			continue
		}
		if model == "ok" {
			exec()
			continue
		}
		exec()
		mBlocked := 0
		if pauseIssued {
			mBlocked, _ = strconv.Atoi(strings.TrimSpace(e.D.Ask("blocked")))
		}
		needWait := mBlocked > 0 && (f[0] == "pause" || mBlocked > wasBlocked)
		wasBlocked = mBlocked
		if needWait {
			// the model's sink is stuck in a write to a peer that does not read: wait until the
			// real one is (the kernel's buffers have to fill up first)
			// (stuck = seen blocked at 80 consecutive looks 5 ms apart; while data still moves the
			// goroutine is in and out of waits — up to a delayed ACK long with the small send buffer)
			t0 := time.Now()
			streak := 0
			for streak < 80 && time.Since(t0) < 3*time.Second {
				if sinkBlocked() >= mBlocked {
					streak++
				} else {
					streak = 0
				}
				time.Sleep(5 * time.Millisecond)
			}
			if streak < 80 {
				res.Count("episode:stopped-kernel-absorbed-the-fill")
				break
			}
		}
		res.Count("op:" + f[0])
		want := canonModel(model)
		want0 := want
		// the model's virtual time for this operation scales the real-time allowance
		virt, _ := strconv.ParseInt(strings.TrimSpace(e.D.Ask("elapsed")), 10, 64)
		if wantsProp("C15") && (f[0] == "disable" || f[0] == "delete" || f[0] == "stallstop") {
			// (before any paused peer is released: the peers are alive and silent here)
			if of := w.stopLeakOracle(i, fail, g0a, g0b, g0c, time.Duration(virt)); of != nil {
				result = of
				break
			}
		}
		w.releasePredictedEnded(want0)
		// wait (real time) until the implementation shows what the model predicts
		var got string
		pollEvery := 500 * time.Microsecond
		deadline := time.Now().Add(3*time.Second + 4*time.Duration(virt))
		if f[0] == "sendnw" || f[0] == "closenw" {
			// the state "at this instant": it must show up before the first timer can fire
			deadline = time.Now().Add(150 * time.Millisecond)
		} else if e.OracleOnly {
			// searching with the model-free oracles only: the model is a guide for waiting, no more
			deadline = time.Now().Add(300*time.Millisecond + 2*time.Duration(virt))
		}
		for {
			head := strings.Fields(want)[0]
			r := connectRes
			if f[0] != "connect" {
				r = head
			}
			got = w.observe(r, want0)
			want = reconcile(want0, got) // (afresh every time: a counter inside its range may still move)
			if got == want || time.Now().After(deadline) {
				break
			}
			time.Sleep(pollEvery)
			if pollEvery < 20*time.Millisecond {
				pollEvery += pollEvery / 2
			}
		}
		if got == want && f[0] != "sendnw" && f[0] != "closenw" {
			// and that it stays so
			time.Sleep(3 * time.Millisecond)
			r := connectRes
			if f[0] != "connect" {
				r = strings.Fields(want)[0]
			}
			got = w.observe(r, want0)
			want = reconcile(want0, got)
		}
		if os.Getenv("E6TRACE") != "" {
			cut := func(x string) string {
				if len(x) > 400 {
					return x[:400] + "…"
				}
				return x
			}
			fmt.Fprintf(os.Stderr, "op %d %s\n  want %s\n  got  %s\n", i, cut(line), cut(want), cut(got))
		}
		// ---- model-free oracles
		if wantsProp("C03") && (f[0] == "disable" || f[0] == "delete" || f[0] == "stallstop") {
			if of := w.downOracle(i, fail, f[1]); of != nil {
				result = of
				break
			}
		}
		if wantsProp("C03") && f[0] == "setupstream" && reAddressed {
			if of := w.replacedOracle(i, fail, f[1], replacedAddr, true); of != nil {
				result = of
				break
			}
		}
		if wantsProp("C03") && f[0] == "populate" && replacedAddr != "" && replacedNow {
			// a replaced proxy is really down: unless the replacement listens on the same address,
			// the old address refuses; the connections made through the old proxy have ended
			// (replaced = the entry differs in listen address or upstream from what the proxy had)
			if of := w.replacedOracle(i, fail, f[1], replacedAddr, f[3] == "1"); of != nil {
				result = of
				break
			}
		}
		if wantsProp("C20") {
			if of := w.labelOracle(i, fail, got); of != nil {
				result = of
				break
			}
		}
		if got != want && !e.OracleOnly {
			result = fail(i, "disagreement", "", want, got, "connection-level observables differ after "+f[0], "e6:obs")
			break
		}
		shape = append(shape, f[0])
	}
	// ---- C13: a history of nothing but reset_peer toxics (toxicity 1) put in place before the
	// connections: once the toxic has fired, both peers have seen the connection end with a reset
	// (the unsent data is discarded, not flushed: SO_LINGER 0 on both sockets), not with an
	// orderly close
	if wantsProp("C13") && (result == nil || e.OracleOnly) {
		// (the toxic's clock starts with the first data or end-of-stream in its direction)
		resetOnly, any := true, false
		dirs := map[string]bool{}   // proxy/direction with a reset_peer toxic
		primed := map[string]bool{} // connections on which data was sent in such a direction
		for _, op := range ops {
			g := strings.Fields(op)
			switch g[0] {
			case "upstream", "create", "connect":
			case "sendnw":
				if c := w.conns[g[1]]; c != nil && len(g) >= 3 && dirs[c.proxy+"/"+g[2]] {
					primed[g[1]] = true
					any = true
				}
			case "tadd":
				if len(g) >= 9 && g[4] == "reset_peer" && g[8] == "1" {
					dirs[g[1]+"/"+g[2]] = true
				} else {
					resetOnly = false
				}
			default:
				resetOnly = false
			}
		}
		if resetOnly && any {
			deadline := time.Now().Add(2 * time.Second)
			for {
				bad := ""
				for _, n := range w.corder {
					c := w.conns[n]
					if !primed[n] {
						continue
					}
					for who, pr := range map[string]*peer{"client": c.client, "server": c.server} {
						if pr == nil || pr.conn == nil {
							continue
						}
						pr.mu.Lock()
						if !pr.ended {
							bad = n + " (" + who + "): still open"
						} else if !pr.rst {
							bad = n + " (" + who + "): orderly close"
						}
						pr.mu.Unlock()
					}
				}
				if bad == "" {
					break
				}
				if time.Now().After(deadline) {
					result = fail(len(ops)-1, "oracle", "C13", "both peers see a reset", bad,
						"a connection under a reset_peer toxic did not end with a TCP reset at both peers", "e6:C13:no-reset")
					break
				}
				time.Sleep(5 * time.Millisecond)
			}
		}
	}
	// ---- end of episode: everything is torn down; nothing may be left behind (C15, C20)
	if result == nil || e.OracleOnly {
		for _, c := range w.conns {
			c.client.conn.Close()
			c.client.setPaused(false)
			if c.server != nil && c.server.conn != nil {
				c.server.conn.Close()
				c.server.setPaused(false)
			}
		}
		srv.Collection.Clear()
		var a, b, c, d int
		var sites map[string]int
		e.D.Ask("teardown")
		virt, _ := strconv.ParseInt(strings.TrimSpace(e.D.Ask("elapsed")), 10, 64)
		deadline := time.Now().Add(2*time.Second + 4*time.Duration(virt))
		for {
			a, b, c, d, sites = census()
			oth := 0
			for k, n := range sites {
				if strings.HasPrefix(k, "other:") && n > sites0[k] {
					oth += n - sites0[k]
				}
			}
			if (a == g0a && b == g0b && c == g0c && d == g0d && oth == 0) || time.Now().After(deadline) {
				break
			}
			time.Sleep(5 * time.Millisecond)
		}
		others := 0
		for k, n := range sites {
			if strings.HasPrefix(k, "other:") && n > sites0[k] {
				others += n - sites0[k]
			}
		}
		if wantsProp("C15") && (a != g0a || b != g0b || c != g0c || d != g0d || others != 0) {
			var ks []string
			for k, n := range sites {
				if n > sites0[k] {
					ks = append(ks, k)
				}
			}
			sort.Strings(ks)
			of := fail(len(ops)-1, "oracle", "C15", "", fmt.Sprintf("goroutines left: read=%d stubs=%d write=%d loops=%d other=%d at %v", a-g0a, b-g0b, c-g0c, d-g0d, others, ks),
				"after every connection ended and every proxy was deleted, goroutines of toxiproxy code remain", "e6:C15:leak:"+strings.Join(ks, "|"))
			if result == nil || e.OracleOnly {
				result = of
			}
		}
		_ = fd0
	}
	if result == nil {
		res.Episodes++
		if len(shape) > 2 && e.seen.Add(strings.Join(ops, ";")) {
			res.Distinct++
			res.AddSample(map[string]any{"ops": strings.Join(ops, " ; ")}, 6)
		}
	}
	return result
}

// stopLeakOracle (C15): once every proxy is disabled or deleted, no goroutine serving a
// connection may remain — whatever the peers do (they are still alive here: a peer that does
// not read, or never closes, must not keep toxiproxy's goroutines alive after the stop).
func (w *world) stopLeakOracle(i int, fail func(int, string, string, string, string, string, string) *report.Failure, g0a, g0b, g0c int, virt time.Duration) *report.Failure {
	for _, n := range w.porder {
		if p := w.proxy(n); p != nil {
			p.Lock()
			en := p.Enabled
			p.Unlock()
			if en {
				return nil
			}
		}
	}
	deadline := time.Now().Add(2*time.Second + 4*virt)
	for {
		a, b, c, _, sites := census()
		if a <= g0a && b <= g0b && c <= g0c {
			return nil
		}
		if time.Now().After(deadline) {
			var ks []string
			for k := range sites {
				if !strings.HasPrefix(k, "other:") {
					ks = append(ks, k)
				}
			}
			sort.Strings(ks)
			return fail(i, "oracle", "C15", "", fmt.Sprintf("goroutines left: read=%d stubs=%d write=%d at %v", a-g0a, b-g0b, c-g0c, ks),
				"every proxy is disabled or deleted, yet goroutines serving its connections remain (the peers are still alive)", "e6:C15:leak-after-stop")
		}
		time.Sleep(5 * time.Millisecond)
	}
}

// replacedOracle (C03): after a populate that replaced proxy pname (different upstream or
// listen address): every connection made through the old proxy has ended at both peers, and
// the old address refuses unless the replacement is enabled on that very address.
func (w *world) replacedOracle(i int, fail func(int, string, string, string, string, string, string) *report.Failure, pname, oldAddr string, newEnabled bool) *report.Failure {
	p := w.proxy(pname)
	if p == nil {
		return nil
	}
	p.Lock()
	newListen, newUp := p.Listen, p.Upstream
	p.Unlock()
	_ = newUp
	if !(newEnabled && newListen == oldAddr) {
		if c, err := net.DialTimeout("tcp", oldAddr, 300*time.Millisecond); err == nil {
			c.Close()
			return fail(i, "oracle", "C03", "refused", "accepted", "the listen address of a replaced proxy still accepts connections", "e6:C03:replaced-still-listening")
		}
	}
	deadline := time.Now().Add(time.Second)
	for {
		open := ""
		for _, n := range w.corder {
			c := w.conns[n]
			if c.proxy != pname || !c.old {
				continue
			}
			c.client.mu.Lock()
			ce := c.client.ended
			c.client.mu.Unlock()
			c.server.mu.Lock()
			se := c.server.ended
			c.server.mu.Unlock()
			if !ce || !se {
				open = n
			}
		}
		if open == "" {
			return nil
		}
		if time.Now().After(deadline) {
			return fail(i, "oracle", "C03", "terminated", "open", "connection "+open+" made through a proxy that was then replaced is still open at a peer", "e6:C03:replaced-conn-open")
		}
		time.Sleep(5 * time.Millisecond)
	}
}

func (w *world) symOf(addr string) string {
	for sym, a := range w.upAddr {
		if a == addr {
			return sym
		}
	}
	return addr
}

// downOracle (C03): after the call returned, the old address refuses and both peers of every
// connection of that proxy see the end within a grace period.
func (w *world) downOracle(i int, fail func(int, string, string, string, string, string, string) *report.Failure, pname string) *report.Failure {
	addr := w.proxies[pname]
	if c, err := net.DialTimeout("tcp", addr, 300*time.Millisecond); err == nil {
		c.Close()
		return fail(i, "oracle", "C03", "refused", "accepted", "the listen address of a disabled/deleted proxy still accepts connections", "e6:C03:still-listening")
	}
	deadline := time.Now().Add(time.Second)
	for {
		open := ""
		for _, n := range w.corder {
			c := w.conns[n]
			if c.proxy != pname {
				continue
			}
			c.client.mu.Lock()
			ce := c.client.ended
			c.client.mu.Unlock()
			c.server.mu.Lock()
			se := c.server.ended
			c.server.mu.Unlock()
			if !ce || !se {
				open = n
			}
		}
		if open == "" {
			// ... and they saw it when the request returned, not later: stop() closes every socket of
			// the proxy before it returns, whatever a toxic still holds (peers that were reading)
			if at, ok := w.stopAt[pname]; ok {
				for _, n := range w.corder {
					c := w.conns[n]
					if c.proxy != pname {
						continue
					}
					for _, pr := range []*peer{c.client, c.server} {
						pr.mu.Lock()
						late := !pr.everPaused && pr.endedAt.After(at.Add(1500*time.Millisecond))
						data := !pr.everPaused && pr.lastData.After(at.Add(300*time.Millisecond))
						d1, d2 := pr.endedAt.Sub(at), pr.lastData.Sub(at)
						pr.mu.Unlock()
						if data {
							return fail(i, "oracle", "C03", "nothing relayed after the request returned", fmt.Sprintf("connection %s: data %v after", n, d2),
								"a peer received data through a proxy after the request that disabled/deleted it had returned", "e6:C03:data-after-stop")
						}
						if late {
							return fail(i, "oracle", "C03", "closed when the request returns", fmt.Sprintf("connection %s: end seen %v after", n, d1),
								"a connection of a disabled/deleted proxy stayed open at a peer long after the request had returned", "e6:C03:conn-closed-late")
						}
					}
				}
			}
			return nil
		}
		if time.Now().After(deadline) {
			return fail(i, "oracle", "C03", "terminated", "open", "connection "+open+" of a disabled/deleted proxy is still open at a peer", "e6:C03:conn-open")
		}
		time.Sleep(5 * time.Millisecond)
	}
}

var _ = bytes.Equal
