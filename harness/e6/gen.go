//go:build verif

package e6

import (
	"fmt"

	"verifharness/report"
	"verifharness/rng"
	"verifharness/run"
)

var Corpus = [][]string{
	// C15 (fixed): a stub that closes on its own while the sender still sends must not strand
	// the stub before it and the goroutine copying from the socket
	{"upstream u1 1", "create p1 u1 1", "tadd p1 down t2 limit_data 20 0 0 1", "connect p1 c1", "send c1 down 200000"},
	{"upstream u1 1", "create p1 u1 1", "tadd p1 up t1 timeout 20 0 0 1", "connect p1 c1", "send c1 up 200000", "send c1 up 100"},
	// C15 (fixed): a failed write (here: everything is torn down while a write to a peer that
	// does not read is blocked) must not strand the last stub and what is before it
	{"upstream u1 1", "create p1 u1 1", "connect p1 c1", "pause c1 server"},
	{"upstream u1 1", "create p1 u1 1", "tadd p1 down t1 latency 400 0 0 1", "connect p1 c1", "sendnw c1 down 100", "sendnw c1 down 100", "abort c1 client"},
	// C15: a toxic is removed (or everything reset) while its stub sits in a timer with its input
	// already ended: the helpers of RemoveToxic must all end
	{"upstream u1 1", "create p1 u1 1", "tadd p1 up t1 slow_close 400 0 0 1", "connect p1 c1", "send c1 up 5", "closenw c1 client", "tdel p1 t1"},
	{"upstream u1 1", "create p1 u1 1", "tadd p1 up t1 slow_close 400 0 0 1", "connect p1 c1", "send c1 up 5", "closenw c1 client", "treset p1"},
	{"upstream u1 1", "create p1 u1 1", "tadd p1 down t1 latency 400 0 0 1", "connect p1 c1", "sendnw c1 down 5", "closenw c1 server", "tdel p1 t1"},
	// C15: a timeout toxic is removed (its Cleanup closes the stub from outside its Pipe), then the
	// sender goes on sending: the data must still be drained
	{"upstream u1 1", "create p1 u1 1", "tadd p1 up t1 latency 400 0 0 1", "tadd p1 up t2 timeout 0 0 0 1", "connect p1 c1", "sendnw c1 up 1000", "tdel p1 t2"},
	{"upstream u1 1", "create p1 u1 1", "tadd p1 down t1 latency 400 0 0 1", "tadd p1 down t2 timeout 0 0 0 1", "connect p1 c1", "sendnw c1 down 1000", "treset p1"},
	// C03: one direction of a connection has ended while the other still holds data (a toxic delays
	// it): stopping the proxy closes the surviving side at once all the same
	{"upstream u1 1", "create p1 u1 1", "tadd p1 down t1 latency 6000 0 0 1", "connect p1 c1", "sendnw c1 down 100", "closenw c1 client", "disable p1"},
	{"upstream u1 1", "create p1 u1 1", "tadd p1 up t1 latency 6000 0 0 1", "connect p1 c1", "sendnw c1 up 100", "closenw c1 server", "delete p1"},
	// C13: reset_peer ends the connection with a TCP reset at both peers, with and without data in flight
	{"upstream u1 1", "create p1 u1 1", "tadd p1 up t1 reset_peer 30 0 0 1", "connect p1 c1", "sendnw c1 up 10"},
	{"upstream u1 1", "create p1 u1 1", "tadd p1 down t1 reset_peer 30 0 0 1", "connect p1 c1", "sendnw c1 up 100", "sendnw c1 down 100"},
	{"upstream u1 1", "create p1 u1 1", "tadd p1 down t1 reset_peer 0 0 0 1", "connect p1 c1", "connect p1 c2", "sendnw c2 down 5", "sendnw c1 down 5"},
	// C03: changing the upstream of a proxy drops the connections made so far
	{"upstream u1 1", "upstream u2 1", "create p1 u1 1", "connect p1 c1", "send c1 up 3", "setupstream p1 u2", "connect p1 c2", "send c2 up 3"},
}

type tgen struct {
	ty  string
	gen func(r *rng.R) (int64, int64, int64)
}

// toxics with short real-time timers (the engine waits in real time)
var pool = []tgen{
	{"noop", func(r *rng.R) (int64, int64, int64) { return 0, 0, 0 }},
	{"latency", func(r *rng.R) (int64, int64, int64) { return int64(r.Pick(0, 3, 15)), 0, 0 }},
	{"bandwidth", func(r *rng.R) (int64, int64, int64) { return int64(r.Pick(50, 1000)), 0, 0 }},
	{"slicer", func(r *rng.R) (int64, int64, int64) { return int64(r.Pick(3, 16, 64)), 0, int64(r.Pick(1, 200)) }},
	{"slow_close", func(r *rng.R) (int64, int64, int64) { return int64(r.Pick(0, 10, 30)), 0, 0 }},
	{"timeout", func(r *rng.R) (int64, int64, int64) { return int64(r.Pick(0, 20, 60)), 0, 0 }},
	{"limit_data", func(r *rng.R) (int64, int64, int64) { return int64(r.Pick(0, 1, 5, 20, 100)), 0, 0 }},
	{"reset_peer", func(r *rng.R) (int64, int64, int64) { return int64(r.Pick(0, 10, 30)), 0, 0 }},
}

// InFlight: histories with data in flight when a connection or the proxy goes away (C15's
// matrix: who closes first x FIN/RST x what is in flight), peers that stop reading, and
// clients accepted while a stopping request runs (C03). Timers are long (400 ms latency) so
// that "at this instant" is the same instant for the model and the real sockets.
func InFlight(r *rng.R) []string {
	ops := []string{"upstream u1 1", "create p1 u1 1"}
	dirs := []string{"up", "down"}
	who := []string{"client", "server"}
	if r.Chance(2, 3) {
		ops = append(ops, fmt.Sprintf("tadd p1 %s t1 latency 400 0 0 1", dirs[r.Intn(2)]))
	}
	if r.Chance(1, 4) {
		ops = append(ops, fmt.Sprintf("tadd p1 %s t2 %s", dirs[r.Intn(2)], r.PickS("noop 0 0 0 1", "latency 400 0 0 1", "slow_close 30 0 0 1", "limit_data 100000 0 0 1")))
	}
	nconn := 1 + r.Intn(2)
	var conns []string
	for i := 1; i <= nconn; i++ {
		c := fmt.Sprintf("c%d", i)
		conns = append(conns, c)
		ops = append(ops, "connect p1 "+c)
	}
	n := 2 + r.Intn(7)
	for i := 0; i < n; i++ {
		c := conns[r.Intn(len(conns))]
		switch x := r.Intn(20); {
		case x < 7:
			ops = append(ops, fmt.Sprintf("sendnw %s %s %d", c, dirs[r.Intn(2)], r.Pick(1, 5, 100, 1000)))
		case x < 9:
			ops = append(ops, fmt.Sprintf("send %s %s %d", c, dirs[r.Intn(2)], r.Pick(1, 100, 1000)))
		case x < 12:
			ops = append(ops, fmt.Sprintf("abort %s %s", c, who[r.Intn(2)]))
		case x < 14:
			ops = append(ops, fmt.Sprintf("close %s %s", c, who[r.Intn(2)]))
		case x < 16:
			ops = append(ops, fmt.Sprintf("pause %s %s", c, who[r.Intn(2)]))
		case x == 16:
			ops = append(ops, fmt.Sprintf("resume %s %s", c, who[r.Intn(2)]))
		case x == 17:
			ops = append(ops, r.PickS("disable p1", "delete p1", "setupstream p1 u1", "enable p1"))
		case x == 18:
			ops = append(ops, r.PickS("tdel p1 t1", "treset p1", "tadd p1 up t3 noop 0 0 0 1"))
		default:
			nconn++
			nc := fmt.Sprintf("c%d", nconn)
			ops = append(ops, fmt.Sprintf("stallstop p1 %s %s", nc, r.PickS("disable", "delete")))
			conns = append(conns, nc)
		}
	}
	if r.Chance(1, 2) {
		ops = append(ops, r.PickS("disable p1", "delete p1"))
	}
	return ops
}

// StallLeak: a peer stops reading with data in flight towards it, the other direction ends
// first (half-close), then the proxy is stopped while the peers stay alive (C15: "whichever
// peer ended it ... and after a proxy has been disabled or deleted").
func StallLeak(r *rng.R) []string {
	ops := []string{"upstream u1 1", "create p1 u1 1"}
	if r.Chance(1, 3) {
		ops = append(ops, fmt.Sprintf("tadd p1 %s t1 %s", r.PickS("up", "down"), r.PickS("noop 0 0 0 1", "latency 20 0 0 1", "slow_close 10 0 0 1")))
	}
	ops = append(ops, "connect p1 c1")
	if r.Chance(1, 2) {
		ops = append(ops, "connect p1 c2", fmt.Sprintf("send c2 %s %d", r.PickS("up", "down"), r.Pick(1, 100, 5000)))
	}
	who := r.PickS("client", "server")
	ops = append(ops, "pause c1 "+who)
	switch r.Intn(4) {
	case 0, 1:
		ops = append(ops, "close c1 "+who) // the stalled peer half-closes: the other direction ends
	case 2:
		other := "server"
		if who == "server" {
			other = "client"
		}
		ops = append(ops, "close c1 "+other)
	}
	ops = append(ops, r.PickS("disable p1", "delete p1", "setupstream p1 u1", "disable p1"))
	return ops
}

// Replace: populate over an existing proxy (C03: "replaces a proxy").
func Replace(r *rng.R) []string {
	ops := []string{"upstream u1 1", "upstream u2 1", fmt.Sprintf("create p1 u1 %d", r.Pick(1, 1, 0))}
	if r.Chance(2, 3) {
		ops = append(ops, "connect p1 c1", fmt.Sprintf("send c1 up %d", r.Pick(1, 100)))
	}
	ops = append(ops, fmt.Sprintf("populate p1 %s %d %s", r.PickS("u1", "u2", "u2"), r.Pick(0, 1), r.PickS("same", "same", "new")))
	ops = append(ops, "connect p1 c2")
	if r.Chance(1, 2) {
		ops = append(ops, "enable p1", "connect p1 c3", "send c3 up 5")
	}
	if r.Chance(1, 2) {
		ops = append(ops, fmt.Sprintf("populate p1 %s %d %s", r.PickS("u1", "u2"), r.Pick(0, 1), r.PickS("same", "new")))
	}
	return ops
}

// Relabel: connections before and after a proxy is re-addressed (C20's labels).
func Relabel(r *rng.R) []string {
	ops := []string{"upstream u1 1", "upstream u2 1", "create p1 u1 1", "connect p1 c1",
		fmt.Sprintf("send c1 up %d", r.Pick(10, 1000)), fmt.Sprintf("send c1 down %d", r.Pick(3, 300))}
	if r.Chance(1, 2) {
		ops = append(ops, "close c1 client")
	}
	ops = append(ops, "setupstream p1 u2", "connect p1 c2", fmt.Sprintf("send c2 up %d", r.Pick(20, 2000)), fmt.Sprintf("send c2 down %d", r.Pick(7, 700)),
		"close c2 "+r.PickS("client", "server"))
	if r.Chance(1, 2) {
		ops = append(ops, "setupstream p1 u1", "connect p1 c3", "send c3 up 5", "close c3 server")
	}
	return ops
}

func Episode(r *rng.R) []string {
	ops := []string{"upstream u1 1"}
	if r.Chance(1, 2) {
		ops = append(ops, fmt.Sprintf("upstream u2 %d", r.Intn(2)))
	}
	ups := []string{"u1", "u1", "u2"}
	pnames := []string{"p1", "p2"}
	tnames := []string{"t1", "t2", "t3"}
	nconn := 0
	var conns []string
	slices := false // a slicer with tiny slices is in play: keep payloads small (real time)
	mk := func() string {
		g := pool[r.Intn(len(pool))]
		if g.ty == "slicer" {
			slices = true
		}
		a1, a2, a3 := g.gen(r)
		tox := "1"
		if r.Chance(1, 8) {
			tox = "0"
		}
		return fmt.Sprintf("%s %d %d %d %s", g.ty, a1, a2, a3, tox)
	}
	ops = append(ops, fmt.Sprintf("create p1 %s %d", ups[r.Intn(3)], r.Pick(1, 1, 1, 0)))
	n := 6 + r.Intn(24)
	for i := 0; i < n; i++ {
		p := pnames[r.Intn(2)]
		switch x := r.Intn(30); {
		case x < 2:
			ops = append(ops, fmt.Sprintf("create %s %s %d", p, ups[r.Intn(3)], r.Pick(1, 1, 0)))
		case x < 6:
			nconn++
			c := fmt.Sprintf("c%d", nconn)
			conns = append(conns, c)
			ops = append(ops, fmt.Sprintf("connect %s %s", p, c))
		case x < 14 && len(conns) > 0:
			n := r.Pick(1, 2, 5, 21, 100, 1000, 1000, 200000)
			if slices && n > 1000 {
				n = 5000
			}
			ops = append(ops, fmt.Sprintf("send %s %s %d", conns[r.Intn(len(conns))], []string{"up", "down"}[r.Intn(2)], n))
		case x < 17 && len(conns) > 0:
			ops = append(ops, fmt.Sprintf("close %s %s", conns[r.Intn(len(conns))], []string{"client", "server"}[r.Intn(2)]))
		case x < 21:
			ops = append(ops, fmt.Sprintf("tadd %s %s %s %s", p, []string{"up", "down"}[r.Intn(2)], tnames[r.Intn(3)], mk()))
		case x < 23:
			ops = append(ops, fmt.Sprintf("tdel %s %s", p, tnames[r.Intn(3)]))
		case x == 23:
			ops = append(ops, "treset "+p)
		case x == 24:
			ops = append(ops, "disable "+p)
		case x == 25:
			ops = append(ops, "enable "+p)
		case x == 26:
			ops = append(ops, "delete "+p)
		case x == 27 && r.Chance(1, 2):
			ops = append(ops, fmt.Sprintf("populate %s %s %d %s", p, ups[r.Intn(3)], r.Pick(1, 0, 1), r.PickS("same", "same", "new")))
		case x == 27:
			ops = append(ops, fmt.Sprintf("setupstream %s %s", p, ups[r.Intn(3)]))
		case x == 28:
			ops = append(ops, fmt.Sprintf("upstream u2 %d", r.Intn(2)))
		default:
			if len(conns) > 0 {
				ops = append(ops, fmt.Sprintf("send %s up %d", conns[r.Intn(len(conns))], r.Pick(1, 7, 64)))
			}
		}
	}
	return ops
}

func Sweep(e *Engine, tier string, seed uint64, res *report.Result) {
	res.Rule = "E6: random histories on real loopback sockets: 1-2 proxies on 2 upstream servers (one may refuse), create/enable/disable/delete/re-address, toxics of every type (short real-time timers) added/removed/reset, connections opened at any point, data in both directions, half-closes by either peer. After every operation the engine waits until the implementation shows the model's prediction (3 s) and compares: dial result, bytes and end-of-connection (reset where SO_LINGER 0 decides it) at both peers of every connection, proxy enabled flag, registry sizes, goroutine census of toxiproxy code by role, and the byte counters. distinct_nontrivial counts distinct histories of more than 2 effective operations."
	report1 := func(ops []string, f *report.Failure) {
		g := run.Minimize(e, ops, f)
		res.Failures = append(res.Failures, *g)
		if g.Kind == "disagreement" && !e.OracleOnly {
			e.OracleOnly = true
			sub := report.New("search", tier, seed)
			if f2 := e.Run(ops, sub); f2 != nil && f2.Kind == "oracle" {
				res.Failures = append(res.Failures, *run.Minimize(e, ops, f2))
			}
			res.Notes = append(res.Notes, "search after disagreement: oracle-only replay of the failing history")
			e.OracleOnly = false
		}
	}
	searching := false
	budget := -1 // histories left in the oracle-only search after a disagreement (-1: not searching)
	// handle: what to do with a failing history; true = the sweep is over
	handle := func(ops []string, f *report.Failure) bool {
		if searching {
			// after a disagreement: looking for a model-free failing input only
			if f.Kind == "oracle" {
				res.Failures = append(res.Failures, *run.Minimize(e, ops, f))
				return true
			}
			return false
		}
		report1(ops, f)
		if len(res.Failures) >= 3 {
			return true
		}
		if f.Kind == "disagreement" {
			for _, x := range res.Failures {
				if x.Kind == "oracle" {
					return true
				}
			}
			// the model and the implementation differ and the failing history itself violates
			// no oracle: search on (bounded) with the model-free oracles alone - through the rest
			// of the corpus too
			searching = true
			e.OracleOnly = true
			budget = 120
			res.Notes = append(res.Notes, "search after disagreement: up to 120 further histories with the model-free oracles only")
			return false
		}
		return false
	}
	defer func() { e.OracleOnly = false }()
	for _, c := range Corpus {
		if f := e.Run(c, res); f != nil {
			if handle(c, f) {
				return
			}
		}
	}
	r := rng.New(seed)
	n := 150
	if tier == "thorough" {
		n = 3000
	}
	for i := 0; i < n; i++ {
		if searching {
			if budget == 0 {
				break
			}
			budget--
		}
		var ops []string
		switch {
		case i%5 == 3:
			ops = InFlight(r)
		case i%25 == 4:
			ops = Relabel(r)
		case i%10 == 7:
			ops = StallLeak(r)
		case i%10 == 9:
			ops = Replace(r)
		default:
			ops = Episode(r)
		}
		if f := e.Run(ops, res); f != nil {
			if handle(ops, f) {
				return
			}
		}
	}
	e.OracleOnly = false
}
