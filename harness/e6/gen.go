//go:build verif

package e6

import (
	"fmt"

	"verifharness/report"
	"verifharness/rng"
	"verifharness/run"
)

var Corpus = [][]string{
	// C15 (fixed): a stub that closes on its own while the sender still sends must not strand
	// the stub before it and the goroutine copying from the socket
	{"upstream u1 1", "create p1 u1 1", "tadd p1 down t2 limit_data 20 0 0 1", "connect p1 c1", "send c1 down 200000"},
	{"upstream u1 1", "create p1 u1 1", "tadd p1 up t1 timeout 20 0 0 1", "connect p1 c1", "send c1 up 200000", "send c1 up 100"},
}

type tgen struct {
	ty  string
	gen func(r *rng.R) (int64, int64, int64)
}

// toxics with short real-time timers (the engine waits in real time)
var pool = []tgen{
	{"noop", func(r *rng.R) (int64, int64, int64) { return 0, 0, 0 }},
	{"latency", func(r *rng.R) (int64, int64, int64) { return int64(r.Pick(0, 3, 15)), 0, 0 }},
	{"bandwidth", func(r *rng.R) (int64, int64, int64) { return int64(r.Pick(50, 1000)), 0, 0 }},
	{"slicer", func(r *rng.R) (int64, int64, int64) { return int64(r.Pick(3, 16, 64)), 0, int64(r.Pick(1, 200)) }},
	{"slow_close", func(r *rng.R) (int64, int64, int64) { return int64(r.Pick(0, 10, 30)), 0, 0 }},
	{"timeout", func(r *rng.R) (int64, int64, int64) { return int64(r.Pick(0, 20, 60)), 0, 0 }},
	{"limit_data", func(r *rng.R) (int64, int64, int64) { return int64(r.Pick(0, 1, 5, 20, 100)), 0, 0 }},
	{"reset_peer", func(r *rng.R) (int64, int64, int64) { return int64(r.Pick(0, 10, 30)), 0, 0 }},
}

func Episode(r *rng.R) []string {
	ops := []string{"upstream u1 1"}
	if r.Chance(1, 2) {
		ops = append(ops, fmt.Sprintf("upstream u2 %d", r.Intn(2)))
	}
	ups := []string{"u1", "u1", "u2"}
	pnames := []string{"p1", "p2"}
	tnames := []string{"t1", "t2", "t3"}
	nconn := 0
	var conns []string
	mk := func() string {
		g := pool[r.Intn(len(pool))]
		a1, a2, a3 := g.gen(r)
		tox := "1"
		if r.Chance(1, 8) {
			tox = "0"
		}
		return fmt.Sprintf("%s %d %d %d %s", g.ty, a1, a2, a3, tox)
	}
	ops = append(ops, fmt.Sprintf("create p1 %s %d", ups[r.Intn(3)], r.Pick(1, 1, 1, 0)))
	n := 6 + r.Intn(24)
	for i := 0; i < n; i++ {
		p := pnames[r.Intn(2)]
		switch x := r.Intn(30); {
		case x < 2:
			ops = append(ops, fmt.Sprintf("create %s %s %d", p, ups[r.Intn(3)], r.Pick(1, 1, 0)))
		case x < 6:
			nconn++
			c := fmt.Sprintf("c%d", nconn)
			conns = append(conns, c)
			ops = append(ops, fmt.Sprintf("connect %s %s", p, c))
		case x < 14 && len(conns) > 0:
			ops = append(ops, fmt.Sprintf("send %s %s %d", conns[r.Intn(len(conns))], []string{"up", "down"}[r.Intn(2)], r.Pick(1, 2, 5, 21, 100, 1000, 1000, 200000)))
		case x < 17 && len(conns) > 0:
			ops = append(ops, fmt.Sprintf("close %s %s", conns[r.Intn(len(conns))], []string{"client", "server"}[r.Intn(2)]))
		case x < 21:
			ops = append(ops, fmt.Sprintf("tadd %s %s %s %s", p, []string{"up", "down"}[r.Intn(2)], tnames[r.Intn(3)], mk()))
		case x < 23:
			ops = append(ops, fmt.Sprintf("tdel %s %s", p, tnames[r.Intn(3)]))
		case x == 23:
			ops = append(ops, "treset "+p)
		case x == 24:
			ops = append(ops, "disable "+p)
		case x == 25:
			ops = append(ops, "enable "+p)
		case x == 26:
			ops = append(ops, "delete "+p)
		case x == 27:
			ops = append(ops, fmt.Sprintf("setupstream %s %s", p, ups[r.Intn(3)]))
		case x == 28:
			ops = append(ops, fmt.Sprintf("upstream u2 %d", r.Intn(2)))
		default:
			if len(conns) > 0 {
				ops = append(ops, fmt.Sprintf("send %s up %d", conns[r.Intn(len(conns))], r.Pick(1, 7, 64)))
			}
		}
	}
	return ops
}

func Sweep(e *Engine, tier string, seed uint64, res *report.Result) {
	res.Rule = "E6: random histories on real loopback sockets: 1-2 proxies on 2 upstream servers (one may refuse), create/enable/disable/delete/re-address, toxics of every type (short real-time timers) added/removed/reset, connections opened at any point, data in both directions, half-closes by either peer. After every operation the engine waits until the implementation shows the model's prediction (3 s) and compares: dial result, bytes and end-of-connection (reset where SO_LINGER 0 decides it) at both peers of every connection, proxy enabled flag, registry sizes, goroutine census of toxiproxy code by role, and the byte counters. distinct_nontrivial counts distinct histories of more than 2 effective operations."
	report1 := func(ops []string, f *report.Failure) {
		g := run.Minimize(e, ops, f)
		res.Failures = append(res.Failures, *g)
		if g.Kind == "disagreement" && !e.OracleOnly {
			e.OracleOnly = true
			sub := report.New("search", tier, seed)
			if f2 := e.Run(ops, sub); f2 != nil && f2.Kind == "oracle" {
				res.Failures = append(res.Failures, *run.Minimize(e, ops, f2))
			}
			res.Notes = append(res.Notes, "search after disagreement: oracle-only replay of the failing history")
			e.OracleOnly = false
		}
	}
	for _, c := range Corpus {
		if f := e.Run(c, res); f != nil {
			report1(c, f)
			return
		}
	}
	r := rng.New(seed)
	n := 150
	if tier == "thorough" {
		n = 3000
	}
	for i := 0; i < n; i++ {
		ops := Episode(r)
		if f := e.Run(ops, res); f != nil {
			report1(ops, f)
			if f.Kind == "disagreement" || len(res.Failures) >= 3 {
				return
			}
		}
	}
}
