package e4

import (
	"fmt"
	"math/big"
	"net/http"
	"regexp"
	"strconv"
	"strings"

	"verifharness/report"
)

var proxyRe = regexp.MustCompile(`P\(([^|()]*)\|([^|()]*)\|([^|()]*)\|([01])\|`)

// proxyEntry extracts the canonical entry of proxy `name` from a snapshot ("" if absent).
func ProxyEntry(snap, name string) string {
	inner := strings.TrimSuffix(strings.TrimPrefix(snap, "M["), "]")
	depth := 0
	start := 0
	for i := 0; i < len(inner); i++ {
		switch inner[i] {
		case '(':
			depth++
		case ')':
			depth--
		case ' ':
			if depth == 0 {
				if strings.HasPrefix(inner[start:i], "P("+name+"|") {
					return inner[start:i]
				}
				start = i + 1
			}
		}
	}
	if strings.HasPrefix(inner[start:], "P("+name+"|") {
		return inner[start:]
	}
	return ""
}

var toxNameRe = regexp.MustCompile(`T\(([^|()]*)\|`)
var toxStreamRe = regexp.MustCompile(`T\([^|()]*\|[^|()]*\|([^|()]*)\|`)

func (e *Engine) wants(p string) bool {
	return e.Props == "" || strings.Contains(","+e.Props+",", ","+p+",")
}

type failFn func(at int, kind, prop, model, implS, what, sig string) *report.Failure

// oracles: model-free checks of C05, C06 and C17 on the real responses and snapshots.
func (e *Engine) oracles(i int, fail failFn, method, path string, browser bool, body string, r resp, snap, after string, h http.Handler) *report.Failure {
	segs := strings.Split(strings.Trim(path, "/"), "/")
	defer func() {
		// remember the last successful populate as long as nothing but reads and toxic
		// operations happened since
		toxicOp := len(segs) >= 3 && segs[0] == "proxies" && segs[2] == "toxics"
		switch {
		case browser || method == "GET" || r.status == 404 || r.status == 405 || toxicOp:
		case method == "POST" && len(segs) == 1 && segs[0] == "populate" && r.status == 201:
			e.lastPop = body
		default:
			e.lastPop = ""
		}
	}()
	// ---- C07: no request makes a handler panic (the request would get no answer; when the
	// state it left is what panics, no later request on that route is answered either)
	if r.status == -1 || after == "PANIC" {
		what := "the handler of " + method + " " + routeShape(path) + " panicked: " + r.errMsg
		if r.status != -1 {
			what = "after " + method + " " + routeShape(path) + " (answered " + fmt.Sprint(r.status) + ") GET /proxies panics: the API no longer answers"
		}
		return fail(i, "oracle", "C07", "an answer", "panic", what, "e4:C07:handler-panic")
	}
	// ---- C06: a rejected request changes nothing (bind/resolve failures excepted)
	if e.wants("C06") && r.status >= 400 && !(r.status == 500 && netFailure(r.errMsg)) && after != snap {
		return fail(i, "oracle", "C06", "", fmt.Sprintf("%d %s", r.status, r.errMsg),
			"a request answered with status "+fmt.Sprint(r.status)+" changed the configuration: before "+snap+" after "+after,
			"e4:C06:rejected-request-changed-state:"+method+" "+routeShape(path))
	}
	if e.wants("C05") {
		// browser: 403 on every route, no effect
		if browser && r.status != 404 && r.status != 405 {
			if r.status != 403 || after != snap {
				return fail(i, "oracle", "C05", "403, unchanged", fmt.Sprintf("%d", r.status),
					"a request with a browser User-Agent was not refused with 403 without effect", "e4:C05:browser")
			}
		}
		// every snapshot: a toxic's stream is one of the two documented ones (letter case aside)
		for _, m := range toxStreamRe.FindAllStringSubmatch(after, -1) {
			if st := strings.ToLower(m[1]); st != "upstream" && st != "downstream" {
				return fail(i, "oracle", "C05", "upstream | downstream", m[1], "a toxic with stream "+strconv.Quote(m[1])+" is in the registry", "e4:C05:stream-domain")
			}
		}
		// every snapshot: toxic names unique within a proxy
		for _, pe := range strings.Split(after, " P(") {
			seen := map[string]bool{}
			for _, m := range toxNameRe.FindAllStringSubmatch(pe, -1) {
				if seen[m[1]] {
					return fail(i, "oracle", "C05", "", after, "two toxics named "+m[1]+" in one proxy", "e4:C05:toxic-dup")
				}
				seen[m[1]] = true
			}
		}
		// read-your-writes: GET /proxies/{name}
		if !browser && method == "GET" && len(segs) == 2 && segs[0] == "proxies" {
			ent := ProxyEntry(snap, segs[1])
			if (ent == "") != (r.status == 404) || (ent != "" && (r.status != 200 || r.canon != ent)) {
				return fail(i, "oracle", "C05", ent, fmt.Sprintf("%d %s", r.status, r.canon),
					"GET /proxies/{name} does not reflect the registry", "e4:C05:read-your-writes")
			}
		}
		// every read reflects the successful writes: an update of a proxy that was answered 200
		// and spelled out an upstream shows exactly that upstream afterwards (a listen address may
		// legitimately read back in another spelling: the bound address, or the old spelling
		// when the new one denotes the same address)
		if !browser && (method == "POST" || method == "PATCH") && len(segs) == 2 && segs[0] == "proxies" && r.status == 200 {
			if jv, ok := ParseJV(body); ok && jv.Kind == "obj" {
				seen := map[string]int{}
				val := map[string]string{}
				clean := true
				for _, kv := range jv.Obj {
					k := strings.ToLower(kv.K)
					if k != kv.K {
						clean = false // (case-folded keys: which one wins is the decoder's business)
					}
					seen[k]++
					if kv.V.Kind == "str" {
						val[k] = kv.V.S
					} else if k == "upstream" || k == "listen" || k == "enabled" || k == "name" {
						clean = clean && kv.V.Kind == "bool" && k == "enabled"
					}
				}
				ent := strings.SplitN(strings.TrimSuffix(strings.TrimPrefix(ProxyEntry(after, segs[1]), "P("), ")"), "|", 5)
				if before := strings.SplitN(strings.TrimSuffix(strings.TrimPrefix(ProxyEntry(snap, segs[1]), "P("), ")"), "|", 5); clean && len(ent) == 5 && len(before) == 5 &&
					seen["enabled"] == 0 && ent[3] != before[3] {
					return fail(i, "oracle", "C05", "enabled "+before[3], "enabled "+ent[3],
						"an update answered 200 that does not mention `enabled` changed whether the proxy is enabled", "e4:C05:update-changed-unmentioned-enabled")
				}
				if clean && len(ent) == 5 {
					if seen["upstream"] == 1 && val["upstream"] != "" && ent[2] != val["upstream"] {
						return fail(i, "oracle", "C05", "upstream "+val["upstream"], "upstream "+ent[2],
							"an update answered 200 that names an upstream is not reflected by the following read", "e4:C05:update-not-reflected")
					}
				}
			}
		}
		// unknown proxy: 404 on every sub-route
		if !browser && len(segs) >= 2 && segs[0] == "proxies" && r.status != 405 && ProxyEntry(snap, segs[1]) == "" && r.status != 404 {
			return fail(i, "oracle", "C05", "404", fmt.Sprint(r.status), "unknown proxy name did not yield 404", "e4:C05:unknown-proxy")
		}
		// create: duplicate name is 409; defaults
		if !browser && method == "POST" && len(segs) == 1 && segs[0] == "proxies" {
			if jv, ok := ParseJV(body); ok && jv.Kind == "obj" {
				name, up, okShape := "", "", true
				hasEnabled := false
				for _, kv := range jv.Obj {
					switch strings.ToLower(kv.K) {
					case "name":
						if kv.V.Kind == "str" {
							name = kv.V.S
						} else if kv.V.Kind != "null" {
							okShape = false
						}
					case "upstream":
						if kv.V.Kind == "str" {
							up = kv.V.S
						} else if kv.V.Kind != "null" {
							okShape = false
						}
					case "listen":
						if kv.V.Kind != "str" && kv.V.Kind != "null" {
							okShape = false
						}
					case "enabled":
						hasEnabled = true
						if kv.V.Kind != "bool" && kv.V.Kind != "null" {
							okShape = false
						}
					}
				}
				if okShape && name != "" && up != "" && ProxyEntry(snap, name) != "" && r.status != 409 {
					return fail(i, "oracle", "C05", "409", fmt.Sprint(r.status), "creating a proxy whose name exists did not yield 409", "e4:C05:dup-proxy")
				}
				if r.status == 201 && !hasEnabled && !strings.Contains(r.canon, "|1|") {
					return fail(i, "oracle", "C05", "enabled", r.canon, "a created proxy is not enabled by default", "e4:C05:default-enabled")
				}
			}
		}
		// toxic create: defaults
		if !browser && method == "POST" && len(segs) == 3 && segs[2] == "toxics" && r.status == 200 {
			if jv, ok := ParseJV(body); ok && jv.Kind == "obj" {
				has := map[string]bool{}
				ty := ""
				for _, kv := range jv.Obj {
					if kv.V.Kind != "null" {
						has[strings.ToLower(kv.K)] = true
					}
					if strings.ToLower(kv.K) == "type" && kv.V.Kind == "str" {
						ty = kv.V.S
					}
				}
				f := strings.Split(strings.TrimSuffix(strings.TrimPrefix(r.canon, "T("), ")"), "|")
				if len(f) >= 4 {
					if !has["stream"] && f[2] != "downstream" {
						return fail(i, "oracle", "C05", "downstream", f[2], "default stream is not downstream", "e4:C05:default-stream")
					}
					if !has["toxicity"] && f[3] != "1/1" {
						return fail(i, "oracle", "C05", "1", f[3], "default toxicity is not 1", "e4:C05:default-toxicity")
					}
					if !has["name"] && !has["stream"] && f[0] != ty+"_downstream" {
						return fail(i, "oracle", "C05", ty+"_downstream", f[0], "default name is not <type>_<stream>", "e4:C05:default-name")
					}
					// … and what the request does give is what the toxic gets (a default applies
					// only when the field is left out): toxicity, name
					nTox, toxLit, nName, nameVal := 0, "", 0, ""
					for _, kv := range jv.Obj {
						if strings.ToLower(kv.K) == "toxicity" {
							nTox++
							if kv.K == "toxicity" && kv.V.Kind == "num" {
								toxLit = kv.V.Lit
							}
						}
						if strings.ToLower(kv.K) == "name" {
							nName++
							if kv.K == "name" && kv.V.Kind == "str" {
								nameVal = kv.V.S
							}
						}
					}
					if nTox == 1 && toxLit != "" {
						if v, err := strconv.ParseFloat(toxLit, 32); err == nil {
							r := new(big.Rat).SetFloat64(float64(float32(v)))
							want := r.Num().String() + "/" + r.Denom().String()
							if f[3] != want {
								return fail(i, "oracle", "C05", want, f[3], "the toxicity given in the request ("+toxLit+") is not the toxic's toxicity", "e4:C05:given-toxicity")
							}
						}
					}
					if nName == 1 && nameVal != "" && !strings.ContainsAny(nameVal, "|()") && f[0] != nameVal {
						return fail(i, "oracle", "C05", nameVal, f[0], "the name given in the request is not the toxic's name", "e4:C05:given-name")
					}
				}
			}
		}
	}
	if e.wants("C17") && !browser && method == "POST" && len(segs) == 1 {
		// a populate repeated verbatim right after it succeeded leaves everything untouched
		if segs[0] == "populate" && r.status == 201 && e.lastPop == body && after != snap && distinctNames(body) {
			cls := "ip:port"
			switch {
			case strings.Contains(body, `"listen":":`):
				cls = ":port"
			case strings.Contains(body, `"listen":"localhost:`):
				cls = "host:port"
			case strings.Contains(body, `"listen":"0.0.0.0:`):
				cls = "0.0.0.0:port"
			}
			return fail(i, "oracle", "C17", snap, after, "a repeated identical populate changed the registry (listen spelling "+cls+")",
				"e4:C17:populate-not-idempotent:"+cls)
		}
		if segs[0] == "reset" && r.status == 204 {
			for _, m := range proxyRe.FindAllStringSubmatch(after, -1) {
				if m[4] != "1" {
					return fail(i, "oracle", "C17", "", after, "after reset proxy "+m[1]+" is not enabled", "e4:C17:reset-enabled")
				}
			}
			if strings.Contains(after, "T(") {
				return fail(i, "oracle", "C17", "", after, "after reset a toxic remains", "e4:C17:reset-toxics")
			}
		}
	}
	return nil
}

// distinctNames: no proxy name occurs twice in a populate body (otherwise a later entry
// replaces an earlier one and a repetition is not a no-op by the property's own wording).
func distinctNames(body string) bool {
	jv, ok := ParseJV(body)
	if !ok || jv.Kind != "arr" {
		return false
	}
	seen := map[string]bool{}
	for _, x := range jv.Arr {
		name := ""
		for _, kv := range x.Obj {
			if strings.ToLower(kv.K) == "name" && kv.V.Kind == "str" {
				name = kv.V.S
			}
		}
		if seen[name] {
			return false
		}
		seen[name] = true
	}
	return true
}
