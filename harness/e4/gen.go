package e4

import (
	"fmt"
	"strconv"
	"strings"

	"verifharness/report"
	"verifharness/rng"
	"verifharness/run"
)

// Corpus: minimised past failures and regression witnesses (run first). Ports are written
// as $A, $B (usable) and $C (busy) and substituted per session.
var Corpus = [][]string{
	// C06 (fixed): a toxic update whose body has a type error in one field must change nothing
	{`POST /proxies n {"name":"p1","listen":"127.0.0.1:$A","upstream":"u:1"}`,
		`POST /proxies/p1/toxics n {"type":"latency","name":"t1","attributes":{"latency":5,"jitter":1}}`,
		`PATCH /proxies/p1/toxics/t1 n {"attributes":{"latency":"x","jitter":7}}`,
		`PATCH /proxies/p1/toxics/t1 n {"attributes":{"latency":99},"toxicity":"bad"}`,
		`GET /proxies/p1/toxics/t1 n -`},
}

func (e *Engine) subst(s string) string {
	s = strings.ReplaceAll(s, "$A", strconv.Itoa(e.Ports[0]))
	s = strings.ReplaceAll(s, "$B", strconv.Itoa(e.Ports[1]))
	s = strings.ReplaceAll(s, "$C", strconv.Itoa(e.BusyPort))
	return s
}

func pick(r *rng.R, xs ...string) string { return xs[r.Intn(len(xs))] }

func (e *Engine) listen(r *rng.R) string {
	p := []string{"$A", "$A", "$B", "$B", "$C"}[r.Intn(5)]
	switch r.Intn(12) {
	case 0:
		return "noport"
	case 1:
		return "127.0.0.1:notaport"
	case 2, 3:
		return "localhost:" + p
	case 4, 5:
		return ":" + p
	case 6:
		return "0.0.0.0:" + p
	default:
		return "127.0.0.1:" + p
	}
}

// names in play; `cur` (set from the latest snapshot) biases the choice towards existing ones
var curProxies []string
var curToxics map[string][]string

func setSnapshot(snap string) {
	curProxies = nil
	curToxics = map[string][]string{}
	for _, pe := range strings.Split(snap, "P(")[1:] {
		name := pe[:strings.Index(pe, "|")]
		curProxies = append(curProxies, name)
		for _, m := range toxNameRe.FindAllStringSubmatch(pe, -1) {
			curToxics[name] = append(curToxics[name], m[1])
		}
	}
}

var lastProxy string

func pname(r *rng.R) string {
	if len(curProxies) > 0 && r.Chance(3, 4) {
		lastProxy = curProxies[r.Intn(len(curProxies))]
	} else {
		lastProxy = pick(r, "p1", "p1", "p2", "p2", "p3")
	}
	return lastProxy
}

// tname is called after pname for the same request
func tname(r *rng.R) string {
	if ts := curToxics[lastProxy]; len(ts) > 0 && r.Chance(3, 4) {
		return ts[r.Intn(len(ts))]
	}
	return pick(r, "t1", "t1", "t2", "latency_downstream", "timeout_upstream")
}

func numLit(r *rng.R) string {
	return pick(r, "0", "1", "5", "100", "-1", "1.5", "1e2", "99999999999999999999", "0.3", "-0", "2000")
}

func wrongKind(r *rng.R) string {
	return pick(r, `"x"`, `true`, `[1]`, `{"a":1}`, `1.5`, `99999999999999999999`, `"5"`)
}

func proxyBody(e *Engine, r *rng.R) string {
	var fs []string
	name := pname(r)
	add := func(k, v string) { fs = append(fs, fmt.Sprintf("%q:%s", k, v)) }
	keyCase := func(k string) string {
		if r.Chance(1, 8) {
			return strings.ToUpper(k[:1]) + k[1:]
		}
		return k
	}
	if !r.Chance(1, 10) {
		add(keyCase("name"), strconv.Quote(name))
	}
	// listen is always given: "" would bind a random port, which is outside the address table
	add(keyCase("listen"), strconv.Quote(e.listen(r)))
	if !r.Chance(1, 10) {
		add(keyCase("upstream"), strconv.Quote(pick(r, "u:1", "u:2", "127.0.0.1:9")))
	}
	switch r.Intn(6) {
	case 0:
		add("enabled", "false")
	case 1:
		add("enabled", "true")
	case 2:
		add("enabled", "null")
	}
	// ill-typed / duplicate fields at a random position
	switch r.Intn(10) {
	case 0:
		k := pick(r, "name", "listen", "upstream", "enabled")
		pos := r.Intn(len(fs) + 1)
		x := fmt.Sprintf("%q:%s", k, wrongKind(r))
		if k == "enabled" {
			x = fmt.Sprintf("%q:%s", k, pick(r, `"yes"`, `1`, `[true]`))
		}
		fs = append(fs[:pos], append([]string{x}, fs[pos:]...)...)
	case 1:
		add("name", strconv.Quote(pname(r))) // duplicate key: the last one wins
	case 2:
		add("unknown", "1")
	}
	return "{" + strings.Join(fs, ",") + "}"
}

func attrsFor(r *rng.R, ty string, valid bool) string {
	tags := attrOrder[ty]
	if len(tags) == 0 {
		tags = []string{"latency"}
	}
	var fs []string
	for _, t := range tags {
		if r.Chance(1, 4) {
			continue
		}
		k := t
		if r.Chance(1, 8) {
			k = strings.ToUpper(t)
		}
		v := pick(r, "0", "1", "5", "100", "2000", "-1")
		fs = append(fs, fmt.Sprintf("%q:%s", k, v))
	}
	if !valid {
		t := tags[r.Intn(len(tags))]
		pos := r.Intn(len(fs) + 1)
		x := fmt.Sprintf("%q:%s", t, wrongKind(r))
		fs = append(fs[:pos], append([]string{x}, fs[pos:]...)...)
	}
	if r.Chance(1, 10) {
		fs = append(fs, `"bogus":3`)
	}
	return "{" + strings.Join(fs, ",") + "}"
}

func toxicBody(r *rng.R, create bool) string {
	var fs []string
	ty := pick(r, "latency", "latency", "timeout", "slicer", "bandwidth", "limit_data", "noop", "slow_close", "reset_peer")
	if create {
		switch r.Intn(12) {
		case 0:
			ty = "bogus"
		case 1:
			ty = ""
		}
		if ty != "" || r.Chance(1, 2) {
			fs = append(fs, fmt.Sprintf(`"type":%s`, strconv.Quote(ty)))
		}
		if r.Chance(2, 3) {
			fs = append(fs, fmt.Sprintf(`"name":%s`, strconv.Quote(tname(r))))
		}
		switch r.Intn(8) {
		case 0, 1:
			fs = append(fs, `"stream":"upstream"`)
		case 2:
			fs = append(fs, `"stream":"downstream"`)
		case 3:
			fs = append(fs, `"stream":"UpStream"`)
		case 4:
			fs = append(fs, fmt.Sprintf(`"stream":%s`, pick(r, `"sideways"`, `""`, `5`, `null`)))
		case 5:
			// letters that only Unicode case folding takes for an s (U+017F) or a k (U+212A)
			if r.Chance(1, 2) {
				fs = append(fs, fmt.Sprintf(`"stream":%s`, pick(r, `"up\u017ftream"`, `"down\u017ftream"`, `"UP\u017fTREAM"`, `"upſtream"`)))
			}
		}
	}
	switch r.Intn(6) {
	case 0:
		fs = append(fs, `"toxicity":`+pick(r, "0", "1", "0.5", "0.3", "1e-1", "2", "-1"))
	case 1:
		fs = append(fs, `"toxicity":`+pick(r, `"bad"`, `true`, `[1]`, `1e999`, `null`))
	}
	if r.Chance(3, 4) {
		pos := r.Intn(len(fs) + 1)
		var a string
		switch r.Intn(8) {
		case 0:
			a = `"attributes":` + attrsFor(r, ty, false)
		case 1:
			a = `"attributes":` + pick(r, `5`, `"x"`, `null`, `[]`, `{}`)
		default:
			a = `"attributes":` + attrsFor(r, ty, true)
		}
		fs = append(fs[:pos], append([]string{a}, fs[pos:]...)...)
	}
	if r.Chance(1, 12) && len(fs) > 0 {
		fs = append(fs, fs[r.Intn(len(fs))]) // duplicate key
	}
	return "{" + strings.Join(fs, ",") + "}"
}

func mangle(r *rng.R, body string) string {
	switch r.Intn(8) {
	case 0:
		return "-"
	case 1:
		return body[:r.Intn(len(body)+1)] // truncated
	case 2:
		return pick(r, "null", "5", `"x"`, "[]", "[1]", "true", "{", "}", "nul", " ")
	case 3:
		return body + " trailing"
	}
	return body
}

func popEntry(e *Engine, r *rng.R) string {
	var fs []string
	if !r.Chance(1, 12) {
		fs = append(fs, fmt.Sprintf(`"name":%s`, strconv.Quote(pname(r))))
	}
	fs = append(fs, fmt.Sprintf(`"listen":%s`, strconv.Quote(e.listen(r))))
	if !r.Chance(1, 12) {
		fs = append(fs, fmt.Sprintf(`"upstream":%s`, strconv.Quote(pick(r, "u:1", "u:1", "u:2"))))
	}
	switch r.Intn(6) {
	case 0:
		fs = append(fs, `"enabled":false`)
	case 1:
		fs = append(fs, `"enabled":true`)
	case 2:
		fs = append(fs, `"enabled":null`)
	case 3:
		if r.Chance(1, 3) {
			fs = append(fs, `"enabled":"x"`)
		}
	}
	return "{" + strings.Join(fs, ",") + "}"
}

// Request generates one request line.
func (e *Engine) Request(r *rng.R, last string) string {
	ua := "n"
	if r.Chance(1, 15) {
		ua = "b"
	}
	var line string
	if e.lastPop != "" && r.Chance(1, 8) {
		// the last successful populate again, verbatim, possibly after toxics were added to its
		// proxies: nothing may change (a replaced proxy would lose them)
		return fmt.Sprintf("POST /populate %s %s", ua, e.lastPop)
	}
	switch x := r.Intn(40); {
	case x < 6:
		body := proxyBody(e, r)
		if r.Chance(1, 6) {
			body = mangle(r, body)
		}
		line = fmt.Sprintf("POST /proxies %s %s", ua, body)
	case x < 8:
		line = fmt.Sprintf("GET /proxies %s -", ua)
	case x < 10:
		line = fmt.Sprintf("GET /proxies/%s %s -", pname(r), ua)
	case x < 14:
		var fs []string
		if r.Chance(1, 2) {
			fs = append(fs, `"enabled":`+pick(r, "true", "false", "false", "null", `"x"`))
		}
		if r.Chance(1, 3) {
			fs = append(fs, fmt.Sprintf(`"listen":%s`, strconv.Quote(e.listen(r))))
		}
		if r.Chance(1, 4) {
			fs = append(fs, fmt.Sprintf(`"upstream":%s`, pick(r, `"u:1"`, `"u:2"`, `5`)))
		}
		if r.Chance(1, 8) {
			fs = append(fs, `"name":"renamed"`)
		}
		body := "{" + strings.Join(fs, ",") + "}"
		if r.Chance(1, 8) {
			body = mangle(r, body)
		}
		line = fmt.Sprintf("%s /proxies/%s %s %s", pick(r, "POST", "PATCH"), pname(r), ua, body)
	case x < 16:
		line = fmt.Sprintf("DELETE /proxies/%s %s -", pname(r), ua)
	case x < 22:
		body := toxicBody(r, true)
		if r.Chance(1, 8) {
			body = mangle(r, body)
		}
		line = fmt.Sprintf("POST /proxies/%s/toxics %s %s", pname(r), ua, body)
	case x < 24:
		line = fmt.Sprintf("GET /proxies/%s/toxics %s -", pname(r), ua)
	case x < 26:
		line = fmt.Sprintf("GET /proxies/%s/toxics/%s %s -", pname(r), tname(r), ua)
	case x < 31:
		body := toxicBody(r, false)
		if r.Chance(1, 8) {
			body = mangle(r, body)
		}
		line = fmt.Sprintf("%s /proxies/%s/toxics/%s %s %s", pick(r, "POST", "PATCH"), pname(r), tname(r), ua, body)
	case x < 33:
		line = fmt.Sprintf("DELETE /proxies/%s/toxics/%s %s -", pname(r), tname(r), ua)
	case x < 36:
		n := r.Intn(4)
		var es []string
		for i := 0; i < n; i++ {
			es = append(es, popEntry(e, r))
		}
		body := "[" + strings.Join(es, ",") + "]"
		if r.Chance(1, 8) {
			body = mangle(r, body)
		}
		if r.Chance(1, 10) {
			body = pick(r, `[5]`, `[null]`, `{"name":"p1"}`, `[[]]`)
		}
		line = fmt.Sprintf("POST /populate %s %s", ua, body)
	case x == 36:
		if strings.HasPrefix(last, "POST /populate") {
			line = last // repeat the populate: idempotence
		} else {
			line = fmt.Sprintf("POST /reset %s -", ua)
		}
	case x == 37:
		line = fmt.Sprintf("POST /reset %s -", ua)
	case x == 38:
		line = fmt.Sprintf("GET /version %s -", ua)
	default:
		line = fmt.Sprintf("%s %s %s -", pick(r, "PUT", "DELETE", "GET", "POST", "PATCH", "HEAD"),
			pick(r, "/proxies", "/reset", "/populate", "/version", "/nope", "/proxies/p1/nope", "/proxies/p1/toxics/t1/x", "/metrics", "/"), ua)
	}
	return e.subst(line)
}

func (e *Engine) Sweep(tier string, seed uint64, res *report.Result) {
	res.Rule = "E4: request sequences against a fresh server: a corpus of past failures, all pairs (quick) / triples (thorough) over a fixed alphabet of request forms, then random sequences of 5-40 requests (2-3 proxy names, 2 usable ports + 1 busy port in 4 spellings each, unresolvable addresses, all routes and methods, valid / ill-typed / partially valid / truncated / duplicate-key / differently-cased bodies, browser User-Agent). After every request the response (status + canonical body) and a GET /proxies snapshot are compared with the model; distinct_nontrivial counts distinct (route, status) sequences."
	report1 := func(ops []string, f *report.Failure) {
		g := run.Minimize(e, ops, f)
		res.Failures = append(res.Failures, *g)
		if g.Kind == "disagreement" && !e.OracleOnly {
			e.OracleOnly = true
			sub := report.New("search", tier, seed)
			found := false
			if f2 := e.Run(ops, sub); f2 != nil && f2.Kind == "oracle" {
				res.Failures = append(res.Failures, *run.Minimize(e, ops, f2))
				found = true
			}
			if !found {
				// extensions of the minimal disagreeing list by reads and repeats
				r := rng.New(seed + 99)
				for k := 0; k < 400 && !found; k++ {
					ext := append([]string(nil), g.Ops...)
					for j := 0; j < 1+r.Intn(4); j++ {
						ext = append(ext, e.Request(r, ext[len(ext)-1]))
					}
					if f2 := e.Run(ext, sub); f2 != nil && f2.Kind == "oracle" {
						res.Failures = append(res.Failures, *run.Minimize(e, ext, f2))
						found = true
					}
				}
			}
			if !found {
				e.Sweep("quick", seed+13, sub)
				for _, x := range sub.Failures {
					if x.Kind == "oracle" {
						res.Failures = append(res.Failures, x)
						break
					}
				}
			}
			res.Notes = append(res.Notes, fmt.Sprintf("search after disagreement: %d oracle-only episodes", sub.Episodes))
			e.OracleOnly = false
		}
	}
	e.D.Reset()
	e.SendEnv()
	if !e.EnvOK {
		res.Failures = append(res.Failures, report.Failure{Kind: "disagreement", Ops: []string{"(address table)"},
			What: "the relation measured on Proxy.Differs does not recognise a proxy's bound/configured address as the spelling it came from: hypothesis spellingOK of theorem C17_spelling fails",
			Sig:  "e4:spellingOK"})
	}
	if len(e.SameBad) > 0 {
		// (model-free; reported under whichever property runs this engine: a change of the listen
		// address that Differs does not see is not carried out - C03, C17 -, one it sees where
		// there is none replaces a proxy for nothing - C17)
		res.Failures = append(res.Failures, report.Failure{Kind: "oracle", Ops: []string{"(address table)"},
			Model: "same address iff same port and (both wildcard or equal IP)", Impl: strings.Join(e.SameBad, "; "),
			What: "Proxy.Differs misjudges whether two listen addresses denote the same address: " + e.SameBad[0],
			Sig:  "e4:differs-relation"})
	}
	if !e.PortsOK {
		res.Failures = append(res.Failures, report.Failure{Kind: "disagreement", Ops: []string{"(address table)"},
			What: "an address reported by a started listener is not a spelling of the measured address table with the same port: hypothesis boundOK of theorem C05_reachable_ports fails",
			Sig:  "e4:boundOK"})
	}
	for _, c := range Corpus {
		var ops []string
		for _, l := range c {
			ops = append(ops, e.subst(l))
		}
		if f := e.Run(ops, res); f != nil {
			report1(ops, f)
			return
		}
	}
	// fixed alphabet, exhaustively: all sequences up to `depth`, from an empty registry and
	// after a set-up that creates proxy p1 (enabled on port A) with toxic t1
	setup := []string{
		e.subst(`POST /proxies n {"name":"p1","listen":"127.0.0.1:$A","upstream":"u:1"}`),
		e.subst(`POST /proxies/p1/toxics n {"type":"latency","name":"t1","stream":"upstream","attributes":{"latency":5,"jitter":1}}`),
	}
	ar := rng.New(12345)
	var alpha []string
	setSnapshot("M[P(p1|x|u:1|1|T(t1|latency|upstream|1/1|))]")
	for len(alpha) < 40 {
		alpha = append(alpha, e.Request(ar, ""))
	}
	setSnapshot("")
	depth := 2
	if tier == "thorough" {
		depth = 3
	}
	res.Notes = append(res.Notes, fmt.Sprintf("exhaustive over %d request forms up to length %d, from the empty registry and after a set-up", len(alpha), depth))
	seq := make([]string, 0, depth+2)
	var rec func(base int) bool
	rec = func(base int) bool {
		if len(seq)-base == depth {
			if f := e.Run(seq, res); f != nil {
				report1(append([]string(nil), seq...), f)
				return false
			}
			return true
		}
		for _, a := range alpha {
			seq = append(seq, a)
			ok := rec(base)
			seq = seq[:len(seq)-1]
			if !ok {
				return false
			}
		}
		return true
	}
	if !rec(0) {
		return
	}
	seq = append(seq, setup...)
	if !rec(2) {
		return
	}
	res.Exhaustive = false
	r := rng.New(seed)
	n := 1200
	if tier == "thorough" {
		n = 20000
	}
	for k := 0; k < n; k++ {
		if k%4 == 3 {
			// populate scenario: a body, optionally a toxic, the same body again (1-2 times),
			// then a differing body
			m := 1 + r.Intn(3)
			var es []string
			for i := 0; i < m; i++ {
				es = append(es, popEntry(e, r))
			}
			body := e.subst("[" + strings.Join(es, ",") + "]")
			ops := []string{"POST /populate n " + body}
			if r.Chance(1, 2) {
				ops = append(ops, e.subst(fmt.Sprintf("POST /proxies/%s/toxics n %s", pick(r, "p1", "p2"), toxicBody(r, true))))
			}
			ops = append(ops, "POST /populate n "+body)
			if r.Chance(1, 2) {
				ops = append(ops, "POST /populate n "+body)
			}
			ops = append(ops, "GET /proxies n -", e.subst("POST /populate n ["+popEntry(e, r)+"]"), "POST /reset n -")
			if f := e.Run(ops, res); f != nil {
				report1(ops, f)
				return
			}
			continue
		}
		L := 5 + r.Intn(36)
		last := ""
		ops, f := e.RunGen(func(snap string) string {
			setSnapshot(snap)
			last = e.Request(r, last)
			return last
		}, L, res)
		setSnapshot("")
		if f != nil {
			report1(ops, f)
			return
		}
	}
}
