package e4

import (
	"encoding/hex"
	"fmt"
	"math/big"
	"strconv"
	"strings"
)

// JV is a JSON value as the harness builds it: the request text and the token stream sent
// to the model are both printed from it.
type JV struct {
	Kind string // null bool num str arr obj
	B    bool
	Lit  string // number literal
	S    string
	Arr  []JV
	Obj  []KV
}

type KV struct {
	K string
	V JV
}

func Null() JV          { return JV{Kind: "null"} }
func Bool(b bool) JV    { return JV{Kind: "bool", B: b} }
func Num(lit string) JV { return JV{Kind: "num", Lit: lit} }
func Str(s string) JV   { return JV{Kind: "str", S: s} }
func Arr(xs ...JV) JV   { return JV{Kind: "arr", Arr: xs} }
func Obj(kvs ...KV) JV  { return JV{Kind: "obj", Obj: kvs} }

func (v JV) Text() string {
	switch v.Kind {
	case "null":
		return "null"
	case "bool":
		if v.B {
			return "true"
		}
		return "false"
	case "num":
		return v.Lit
	case "str":
		return strconv.Quote(v.S)
	case "arr":
		var xs []string
		for _, x := range v.Arr {
			xs = append(xs, x.Text())
		}
		return "[" + strings.Join(xs, ",") + "]"
	case "obj":
		var xs []string
		for _, kv := range v.Obj {
			xs = append(xs, strconv.Quote(kv.K)+":"+kv.V.Text())
		}
		return "{" + strings.Join(xs, ",") + "}"
	}
	return "null"
}

func hexs(s string) string {
	if s == "" {
		return "-"
	}
	return hex.EncodeToString([]byte(s))
}

// numTok classifies a number literal with the functions encoding/json itself uses.
func numTok(lit string) string {
	i := "X"
	if n, err := strconv.ParseInt(lit, 10, 64); err == nil {
		i = strconv.FormatInt(n, 10)
	}
	f := "X"
	if x, err := strconv.ParseFloat(lit, 32); err == nil {
		r := new(big.Rat).SetFloat64(x)
		f = r.Num().String() + "/" + r.Denom().String()
	}
	return "n:" + i + ":" + f
}

func (v JV) Tokens() []string {
	switch v.Kind {
	case "null":
		return []string{"z"}
	case "bool":
		if v.B {
			return []string{"t"}
		}
		return []string{"f"}
	case "num":
		return []string{numTok(v.Lit)}
	case "str":
		if v.S == "" {
			return []string{"s:-"}
		}
		return []string{"s:" + hexs(v.S)}
	case "arr":
		out := []string{"["}
		for _, x := range v.Arr {
			out = append(out, x.Tokens()...)
		}
		return append(out, "]")
	case "obj":
		out := []string{"{"}
		for _, kv := range v.Obj {
			k := "s:" + hexs(kv.K)
			out = append(out, k)
			out = append(out, kv.V.Tokens()...)
		}
		return append(out, "}")
	}
	return []string{"z"}
}

// Req is one abstract API request; its String() is the replay format.
type Req struct {
	Method  string
	Path    []string
	Browser bool
	Body    string // "-" none, "bad:<text>" invalid JSON, "json:<text>" built from a JV
	JV      *JV
}

func (r Req) String() string {
	ua := "n"
	if r.Browser {
		ua = "b"
	}
	return fmt.Sprintf("%s /%s %s %s", r.Method, strings.Join(r.Path, "/"), ua, r.Body)
}
