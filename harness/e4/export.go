package e4

import (
	"fmt"
	"net/http"
	"strings"
	"time"
)

// Do issues one request against the handler (exported for engine E7): status and the
// canonical form of the answer.
func (e *Engine) Do(h http.Handler, method, path string, browser bool, body string) (int, string) {
	r := e.do(h, method, path, browser, body)
	return r.status, r.canon
}

// DoSlow is Do with the request body delivered in two parts, `pause` apart.
func (e *Engine) DoSlow(h http.Handler, method, path string, browser bool, body string, pause time.Duration) (int, string) {
	r := e.do(h, method, path, browser, body, pause)
	return r.status, r.canon
}

// ModelLine is the driver protocol line for a request in the replay format
// "METHOD path ua body".
func ModelLine(op string) (line, method, path, ua, body string, ok bool) {
	f := strings.SplitN(op, " ", 4)
	if len(f) < 4 {
		return "", "", "", "", "", false
	}
	method, path, ua, body = f[0], f[1], f[2], f[3]
	var segs []string
	for _, s := range strings.Split(strings.Trim(path, "/"), "/") {
		if s != "" {
			segs = append(segs, hexs(s))
		}
	}
	ps := "-"
	if len(segs) > 0 {
		ps = strings.Join(segs, ",")
	}
	return fmt.Sprintf("req %s %s %s %s", method, ps, ua, tokensOfBody(body)), method, path, ua, body, true
}
