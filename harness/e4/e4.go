// Package e4 is correspondence engine E4: the real HTTP API (ApiServer.Routes(), called
// in-process through httptest recorders, real listeners on loopback ports) against the
// Lean API model, one request at a time, with a snapshot of GET /proxies after every
// request, plus the model-free oracles of C05, C06 and C17.
//
// Abstract operation (= replay line):  METHOD /path b|n <body>
// body: "-" (none) or the request text (JSON, possibly invalid).
package e4

import (
	"bytes"
	"encoding/json"
	"fmt"
	"io"
	"math/big"
	"net"
	"net/http"
	"net/http/httptest"
	"os"
	"runtime"
	"sort"
	"strconv"
	"strings"
	"time"
	"verifharness/ports"

	"github.com/rs/zerolog"

	toxiproxy "github.com/Shopify/toxiproxy/v2"

	"verifharness/drv"
	"verifharness/report"
	"verifharness/run"
)

type AddrInfo struct {
	Spelling, Resolved, Bound string
	ResOK, BindOK             bool
	Port                      int
}

type Engine struct {
	D          *drv.Driver
	Variant    string
	OracleOnly bool
	Props      string
	Ports      []int // usable ports
	BusyPort   int
	busyL      net.Listener
	Addrs      []AddrInfo
	Same       [][2]string // (cur, new): the real Proxy.Differs says the listen address is the same
	SameBad    []string    // pairs on which Differs disagrees with an independent reading of "same address"
	envLines   []string
	lastPop    string
	CurFile    string
	EnvOK      bool // the measured Differs relation satisfies the hypothesis of C17_spelling
	PortsOK    bool // the measured address table satisfies the hypothesis of C05_reachable_ports
	seen       run.Seen
}

func freePort() int { return ports.Free() }

// New measures the address table: what ResolveTCPAddr and Listen answer for every spelling.
func New(d *drv.Driver) *Engine {
	e := &Engine{D: d, Variant: "fixed", seen: run.Seen{}}
	e.Ports = []int{freePort(), freePort()}
	e.BusyPort = freePort()
	spell := func(p int) []string {
		ps := strconv.Itoa(p)
		return []string{"127.0.0.1:" + ps, "localhost:" + ps, ":" + ps, "0.0.0.0:" + ps}
	}
	var sp []string
	for _, p := range append(append([]int{}, e.Ports...), e.BusyPort) {
		sp = append(sp, spell(p)...)
	}
	sp = append(sp, "noport", "127.0.0.1:notaport", "")
	known := map[string]bool{}
	add := func(s string) {
		if known[s] {
			return
		}
		known[s] = true
		a := AddrInfo{Spelling: s}
		if r, err := net.ResolveTCPAddr("tcp", s); err == nil {
			a.Resolved, a.ResOK = r.String(), true
			a.Port = r.Port
		}
		if l, err := net.Listen("tcp", s); err == nil {
			a.Bound, a.BindOK = l.Addr().String(), true
			a.Port = l.Addr().(*net.TCPAddr).Port
			l.Close()
		}
		e.Addrs = append(e.Addrs, a)
	}
	for _, s := range sp {
		if s == "" {
			continue // "" listens on a random port: not in the alphabet
		}
		add(s)
	}
	// the bound and resolved forms are spellings too (a proxy's listen field holds them)
	for i := 0; i < len(e.Addrs); i++ {
		if e.Addrs[i].BindOK {
			add(e.Addrs[i].Bound)
		}
		if e.Addrs[i].ResOK {
			add(e.Addrs[i].Resolved)
		}
	}
	// measure the real Differs on every pair of spellings
	for _, c := range e.Addrs {
		for _, n := range e.Addrs {
			cur := &toxiproxy.Proxy{Listen: c.Spelling, Upstream: "u"}
			d, err := cur.Differs(&toxiproxy.Proxy{Listen: n.Spelling, Upstream: "u"})
			if err == nil && !d {
				e.Same = append(e.Same, [2]string{c.Spelling, n.Spelling})
			}
		}
	}
	// … and compare it with an independent reading of "denotes the same address": same port,
	// and either both hosts are wildcards or both are the same IP
	for _, c := range e.Addrs {
		for _, n := range e.Addrs {
			a, err1 := net.ResolveTCPAddr("tcp", c.Spelling)
			b, err2 := net.ResolveTCPAddr("tcp", n.Spelling)
			if err1 != nil || err2 != nil {
				continue
			}
			au := len(a.IP) == 0 || a.IP.IsUnspecified()
			bu := len(b.IP) == 0 || b.IP.IsUnspecified()
			ref := a.Port == b.Port && ((au && bu) || (!au && !bu && a.IP.Equal(b.IP)))
			got := false
			for _, p := range e.Same {
				got = got || (p[0] == c.Spelling && p[1] == n.Spelling)
			}
			if got != ref {
				e.SameBad = append(e.SameBad, fmt.Sprintf("Differs(%q -> %q) says same=%v", c.Spelling, n.Spelling, got))
			}
		}
	}
	var err error
	e.busyL, err = net.Listen("tcp", ":"+strconv.Itoa(e.BusyPort))
	if err != nil {
		panic(err)
	}
	// (the foreign listener also serves as an upstream that accepts: E7's histories connect
	// clients through the proxies while requests run)
	go func(l net.Listener) {
		for {
			c, err := l.Accept()
			if err != nil {
				return
			}
			go func() {
				io.Copy(io.Discard, c)
				c.Close()
			}()
		}
	}(e.busyL)
	return e
}

func (e *Engine) Close() { e.busyL.Close() }

func (e *Engine) Name() string { return "E4" }

func (e *Engine) SendEnv() {
	for _, a := range e.Addrs {
		r, b := "-", "-"
		if a.ResOK {
			r = hexs(a.Resolved)
		}
		if a.BindOK {
			b = hexs(a.Bound)
		}
		if x := e.D.Ask(fmt.Sprintf("env %s %s %s %d", hexs(a.Spelling), r, b, a.Port)); x != "ok" {
			panic("env: " + x)
		}
	}
	for _, p := range e.Same {
		e.D.Ask(fmt.Sprintf("same %s %s", hexs(p[0]), hexs(p[1])))
	}
	e.D.Ask(fmt.Sprintf("busy %d", e.BusyPort))
	e.D.Ask("variant " + e.Variant)
	e.EnvOK = e.D.Ask("envok") == "1"
	e.PortsOK = e.D.Ask("portsok") == "1"
}

// parse the first JSON value of text into a JV (key order and duplicates preserved).
func ParseJV(text string) (JV, bool) {
	dec := json.NewDecoder(strings.NewReader(text))
	dec.UseNumber()
	var val func() (JV, bool)
	val = func() (JV, bool) {
		tok, err := dec.Token()
		if err != nil {
			return JV{}, false
		}
		switch t := tok.(type) {
		case nil:
			return Null(), true
		case bool:
			return Bool(t), true
		case json.Number:
			return Num(t.String()), true
		case string:
			return Str(t), true
		case json.Delim:
			switch t {
			case '[':
				out := JV{Kind: "arr"}
				for dec.More() {
					x, ok := val()
					if !ok {
						return JV{}, false
					}
					out.Arr = append(out.Arr, x)
				}
				if _, err := dec.Token(); err != nil {
					return JV{}, false
				}
				return out, true
			case '{':
				out := JV{Kind: "obj"}
				for dec.More() {
					k, err := dec.Token()
					if err != nil {
						return JV{}, false
					}
					ks, ok := k.(string)
					if !ok {
						return JV{}, false
					}
					x, ok := val()
					if !ok {
						return JV{}, false
					}
					out.Obj = append(out.Obj, KV{ks, x})
				}
				if _, err := dec.Token(); err != nil {
					return JV{}, false
				}
				return out, true
			}
		}
		return JV{}, false
	}
	return val()
}

func tokensOfBody(body string) string {
	if body == "-" || strings.TrimSpace(body) == "" {
		return "-"
	}
	jv, ok := ParseJV(body)
	if !ok {
		return "bad"
	}
	return strings.Join(jv.Tokens(), " ")
}

var attrOrder = map[string][]string{
	"noop": {}, "latency": {"latency", "jitter"}, "bandwidth": {"rate"},
	"slicer": {"average_size", "size_variation", "delay"}, "slow_close": {"delay"},
	"timeout": {"timeout"}, "limit_data": {"bytes"}, "reset_peer": {"timeout"},
}

func canonToxic(m map[string]any) string {
	name, _ := m["name"].(string)
	ty, _ := m["type"].(string)
	st, _ := m["stream"].(string)
	tox := "?"
	if n, ok := m["toxicity"].(json.Number); ok {
		if x, err := strconv.ParseFloat(n.String(), 32); err == nil {
			r := new(big.Rat).SetFloat64(x)
			tox = r.Num().String() + "/" + r.Denom().String()
		}
	}
	var attrs []string
	am, _ := m["attributes"].(map[string]any)
	keys, known := attrOrder[ty]
	if !known {
		for k := range am {
			keys = append(keys, k)
		}
		sort.Strings(keys)
	}
	for _, k := range keys {
		attrs = append(attrs, fmt.Sprintf("%s=%v", k, am[k]))
	}
	if len(am) != len(keys) {
		attrs = append(attrs, fmt.Sprintf("extra-attrs=%d", len(am)))
	}
	return fmt.Sprintf("T(%s|%s|%s|%s|%s)", name, ty, st, tox, strings.Join(attrs, ","))
}

func canonToxics(v any) string {
	arr, _ := v.([]any)
	var ts []string
	for _, t := range arr {
		tm, _ := t.(map[string]any)
		ts = append(ts, canonToxic(tm))
	}
	return strings.Join(ts, ";")
}

func canonProxy(m map[string]any) string {
	name, _ := m["name"].(string)
	li, _ := m["listen"].(string)
	up, _ := m["upstream"].(string)
	en, _ := m["enabled"].(bool)
	b := "0"
	if en {
		b = "1"
	}
	return fmt.Sprintf("P(%s|%s|%s|%s|%s)", name, li, up, b, canonToxics(m["toxics"]))
}

func canonMap(m map[string]any) string {
	var names []string
	for k := range m {
		names = append(names, k)
	}
	sort.Strings(names)
	var ps []string
	for _, n := range names {
		pm, _ := m[n].(map[string]any)
		ps = append(ps, canonProxy(pm))
	}
	return "M[" + strings.Join(ps, " ") + "]"
}

type resp struct {
	status int
	canon  string
	errMsg string
	raw    string
}

func decodeAny(b []byte) (any, bool) {
	dec := json.NewDecoder(bytes.NewReader(b))
	dec.UseNumber()
	var v any
	if err := dec.Decode(&v); err != nil {
		return nil, false
	}
	return v, true
}

// slowBody delivers a request body in two parts with a pause between them (a client on a slow
// connection): handlers that decode the body while they hold a lock hold it that long.
type slowBody struct {
	data  []byte
	pos   int
	pause time.Duration
	slept bool
}

func (b *slowBody) Read(p []byte) (int, error) {
	if b.pos >= len(b.data) {
		return 0, io.EOF
	}
	end := len(b.data)
	if !b.slept {
		if b.pos > 0 {
			time.Sleep(b.pause)
			b.slept = true
		} else if half := len(b.data) / 2; half > 0 {
			end = half
		}
	}
	n := copy(p, b.data[b.pos:end])
	b.pos += n
	return n, nil
}

// serveRecovering runs the handler as net/http's connection loop does: a panic of the handler
// is recovered (returned as text), not propagated.
func serveRecovering(h http.Handler, rec *httptest.ResponseRecorder, req *http.Request) (msg string) {
	defer func() {
		if r := recover(); r != nil {
			msg = fmt.Sprint(r)
			if msg == "" {
				msg = "panic"
			}
		}
	}()
	h.ServeHTTP(rec, req)
	return ""
}

func (e *Engine) do(h http.Handler, method, path string, browser bool, body string, pause ...time.Duration) resp {
	var rd io.Reader
	if body != "-" {
		rd = strings.NewReader(body)
		if len(pause) > 0 && pause[0] > 0 {
			rd = &slowBody{data: []byte(body), pause: pause[0]}
		}
	}
	req := httptest.NewRequest(method, path, rd)
	if browser {
		req.Header.Set("User-Agent", "Mozilla/5.0 (X11; Linux x86_64)")
	} else {
		req.Header.Set("User-Agent", "verif-harness")
	}
	rec := httptest.NewRecorder()
	if msg := serveRecovering(h, rec, req); msg != "" {
		// (net/http recovers a handler's panic per connection: the server lives on, but this
		// request - and every later one that runs into the same state - gets no answer)
		return resp{status: -1, canon: "PANIC", errMsg: msg}
	}
	out := resp{status: rec.Code, raw: rec.Body.String()}
	v, ok := decodeAny(rec.Body.Bytes())
	segs := strings.Split(strings.Trim(path, "/"), "/")
	switch {
	case rec.Code >= 400:
		if m, isMap := v.(map[string]any); ok && isMap {
			if _, hasErr := m["error"]; hasErr {
				out.errMsg, _ = m["error"].(string)
				st, _ := m["status"].(json.Number)
				out.canon = "E" + st.String()
				if ps, hasP := m["proxies"]; hasP { // populate failure
					out.canon = "POP[" + canonList(ps) + "]" + out.canon
				}
				return out
			}
		}
		out.canon = "TXT"
	case rec.Code == 204:
		out.canon = "-"
		if rec.Body.Len() > 0 {
			out.canon = "unexpected-body"
		}
	case !ok:
		out.canon = "TXT"
	default:
		switch x := v.(type) {
		case []any:
			out.canon = "L[" + canonToxics(x) + "]"
		case map[string]any:
			switch {
			case len(segs) == 1 && segs[0] == "proxies" && method == "GET":
				out.canon = canonMap(x)
			case len(segs) == 1 && segs[0] == "populate":
				out.canon = "POP[" + canonList(x["proxies"]) + "]"
			case len(segs) == 1 && segs[0] == "version":
				out.canon = "TXT"
			case len(segs) >= 3:
				out.canon = canonToxic(x)
			default:
				out.canon = canonProxy(x)
			}
		default:
			out.canon = "TXT"
		}
	}
	return out
}

func canonList(v any) string {
	arr, _ := v.([]any)
	var ps []string
	for _, p := range arr {
		pm, _ := p.(map[string]any)
		ps = append(ps, canonProxy(pm))
	}
	return strings.Join(ps, " ")
}

func netFailure(msg string) bool {
	for _, s := range []string{"listen tcp", "bind:", "missing port", "lookup ", "address ", "unknown port", "dial tcp"} {
		if strings.Contains(msg, s) {
			return true
		}
	}
	return false
}

// Run executes one episode: a fresh server, the requests one after the other.
func (e *Engine) Run(ops []string, res *report.Result) *report.Failure {
	_, f := e.run(ops, nil, 0, res)
	return e.confirm(ops, f, res)
}

// confirm: a disagreement that consists in a bind failure the model does not predict ("address
// already in use") can be another process of this machine holding the port for a moment (the
// engines of several checks may run side by side). Such a history is run once more: a listener
// that toxiproxy itself left behind fails again, a passer-by does not.
func (e *Engine) confirm(ops []string, f *report.Failure, res *report.Result) *report.Failure {
	if f == nil || f.Kind != "disagreement" || !strings.Contains(f.Impl, "address already in use") {
		return f
	}
	time.Sleep(300 * time.Millisecond)
	_, f2 := e.run(append([]string(nil), f.Ops...), nil, 0, res)
	if f2 == nil {
		res.Count("retried:unpredicted-address-in-use-not-reproduced")
		return nil
	}
	return f2
}

// RunGen executes an episode whose requests are generated on the fly from the latest
// snapshot (so that most of them address things that exist); returns the requests issued.
func (e *Engine) RunGen(gen func(snap string) string, n int, res *report.Result) ([]string, *report.Failure) {
	ops, f := e.run(nil, gen, n, res)
	return ops, e.confirm(ops, f, res)
}

func (e *Engine) run(ops []string, gen func(snap string) string, n int, res *report.Result) ([]string, *report.Failure) {
	if e.CurFile != "" && gen == nil {
		os.WriteFile(e.CurFile, []byte(strings.Join(ops, "\n")+"\n"), 0o644)
	}
	e.D.Reset()
	e.SendEnv()
	e.lastPop = ""
	logger := zerolog.Nop()
	srv := toxiproxy.NewServer(toxiproxy.NewMetricsContainer(nil), logger)
	h := srv.Routes()
	defer srv.Collection.Clear()
	fail := func(at int, kind, prop, model, implS, what, sig string) *report.Failure {
		return &report.Failure{Kind: kind, Property: prop, Ops: append([]string(nil), ops...), At: at,
			Model: model, Impl: implS, What: what, Sig: sig}
	}
	snap := e.do(h, "GET", "/proxies", false, "-").canon
	var shape []string
	for i := 0; ; i++ {
		var op string
		if gen != nil {
			if i >= n {
				break
			}
			op = gen(snap)
			ops = append(ops, op)
			if e.CurFile != "" {
				os.WriteFile(e.CurFile, []byte(strings.Join(ops, "\n")+"\n"), 0o644)
			}
		} else {
			if i >= len(ops) {
				break
			}
			op = ops[i]
		}
		res.Ops++
		f := strings.SplitN(op, " ", 4)
		if len(f) < 4 {
			return ops, nil
		}
		method, path, ua, body := f[0], f[1], f[2], f[3]
		segs := []string{}
		for _, s := range strings.Split(strings.Trim(path, "/"), "/") {
			if s != "" {
				segs = append(segs, hexs(s))
			}
		}
		ps := "-"
		if len(segs) > 0 {
			ps = strings.Join(segs, ",")
		}
		model := e.D.Ask(fmt.Sprintf("req %s %s %s %s", method, ps, ua, tokensOfBody(body)))
		if strings.HasPrefix(model, "bad-op") {
			return ops, fail(i, "disagreement", "", model, "", "driver rejected the request line", "e4:driver")
		}
		mObs, mGuide, _ := strings.Cut(model, " | ")
		r := e.do(h, method, path, ua == "b", body)
		after := e.do(h, "GET", "/proxies", false, "-").canon
		got := fmt.Sprintf("%d %s", r.status, r.canon)
		res.Count(fmt.Sprintf("status:%d", r.status))
		res.Count("route:" + method + " " + routeShape(path))
		// ---- model-free oracles
		if of := e.oracles(i, fail, method, path, ua == "b", body, r, snap, after, h); of != nil {
			return ops, of
		}
		if strings.Contains(mGuide, "nondet=1") {
			res.Count("episode:stopped-at-map-order-nondeterminism")
			break
		}
		mstate := e.D.Ask("state")
		if !e.OracleOnly {
			if got != mObs {
				return ops, fail(i, "disagreement", "", mObs, got+"  ("+strings.TrimSpace(r.errMsg)+")", "response differs", "e4:resp")
			}
			if after != mstate {
				return ops, fail(i, "disagreement", "", mstate, after, "registry state after the request differs", "e4:state")
			}
		}
		shape = append(shape, fmt.Sprintf("%s %s %d", method, routeShape(path), r.status))
		snap = after
	}
	// ---- C15: once every proxy is stopped, no goroutine of a proxy's life cycle is left - also
	// of the proxies whose start was refused during the episode (busy port, bad address)
	if e.wants("C15") {
		srv.Collection.Clear()
		if left, at := proxyLoops(500 * time.Millisecond); left > 0 {
			return ops, fail(len(ops)-1, "oracle", "C15", "0", fmt.Sprintf("%d at %s", left, at),
				"after every proxy was stopped and removed, goroutines of a proxy's accept loop remain (they, and the proxy objects they hold, stay for the life of the process)", "e4:C15:proxy-goroutine-left")
		}
	}
	res.Episodes++
	if e.seen.Add(strings.Join(shape, ">")) {
		res.Distinct++
		res.AddSample(map[string]any{"requests": ops, "outcome": strings.Join(shape, " > ")}, 6)
	}
	return ops, nil
}

var loopStack = make([]byte, 1<<21)

// proxyLoops counts the goroutines that run a proxy's accept loop or its listener watchdog, waiting
// up to d for them to end (they end asynchronously after stop() returns).
func proxyLoops(d time.Duration) (int, string) {
	deadline := time.Now().Add(d)
	for {
		n := runtime.Stack(loopStack, true)
		cnt, at := 0, ""
		for _, g := range strings.Split(string(loopStack[:n]), "\n\n") {
			for _, fn := range []string{"toxiproxy/v2.(*Proxy).server", "toxiproxy/v2.(*Proxy).freeBlocker"} {
				if strings.Contains(g, fn) {
					cnt++
					at = fn[strings.Index(fn, "("):]
					break
				}
			}
		}
		if cnt == 0 || time.Now().After(deadline) {
			return cnt, at
		}
		time.Sleep(5 * time.Millisecond)
	}
}

func routeShape(path string) string {
	segs := strings.Split(strings.Trim(path, "/"), "/")
	for i := range segs {
		if i == 1 {
			segs[i] = "{p}"
		}
		if i == 3 {
			segs[i] = "{t}"
		}
	}
	return "/" + strings.Join(segs, "/")
}

// CanonSnapshot canonicalises the body of GET /proxies.
func CanonSnapshot(body []byte) string {
	v, ok := decodeAny(body)
	if !ok {
		return "?"
	}
	m, _ := v.(map[string]any)
	return canonMap(m)
}

// Subst replaces $A, $B, $C by this session's ports.
func (e *Engine) Subst(s string) string { return e.subst(s) }
