// Package run holds what all correspondence engines share: the Engine interface,
// delta-debugging of a failing operation list, and bookkeeping of distinct cases.
package run

import (
	"hash/fnv"
	"strings"

	"verifharness/report"
)

// Engine executes one episode (a list of abstract operations) on the Lean model and on the
// real implementation in lock-step and reports the first divergence or oracle failure.
type Engine interface {
	Name() string
	Run(ops []string, res *report.Result) *report.Failure
}

// Minimize is ddmin over the operation list: drop chunks of operations while some failure
// of the same kind (and property) still shows.
func Minimize(e Engine, ops []string, f *report.Failure) *report.Failure {
	best := f
	cur := append([]string(nil), ops...)
	if f.At+1 < len(cur) {
		cur = cur[:f.At+1]
	}
	scratch := report.New("min", "", 0)
	same := func(g *report.Failure) bool {
		return g != nil && g.Kind == f.Kind && g.Property == f.Property
	}
	n := 2
	budget := 400
	for len(cur) >= 2 && budget > 0 {
		chunk := (len(cur) + n - 1) / n
		reduced := false
		for start := 0; start < len(cur) && budget > 0; start += chunk {
			end := start + chunk
			if end > len(cur) {
				end = len(cur)
			}
			cand := append(append([]string(nil), cur[:start]...), cur[end:]...)
			if len(cand) == 0 {
				continue
			}
			budget--
			if g := e.Run(cand, scratch); same(g) {
				cur = cand
				if g.At+1 < len(cur) {
					cur = cur[:g.At+1]
				}
				best = g
				if n > 2 {
					n--
				}
				reduced = true
				break
			}
		}
		if !reduced {
			if n >= len(cur) {
				break
			}
			n *= 2
			if n > len(cur) {
				n = len(cur)
			}
		}
	}
	best.Ops = cur
	return best
}

// Seen counts distinct keys.
type Seen map[uint64]struct{}

func (s Seen) Add(parts ...string) bool {
	h := fnv.New64a()
	h.Write([]byte(strings.Join(parts, "\x00")))
	k := h.Sum64()
	if _, ok := s[k]; ok {
		return false
	}
	s[k] = struct{}{}
	return true
}
