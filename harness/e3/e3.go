// Package e3 is correspondence engine E3: a real ToxicCollection with real ToxicLinks
// (started through the exported StartLink with harness-owned io.Reader sources and
// io.WriteCloser sinks, so chunk boundaries in, write boundaries out and back-pressure
// are under the harness' control) reconfigured through AddToxicJson / UpdateToxicJson /
// RemoveToxic / ResetToxics, inside a testing/synctest bubble, in lock-step with the Lean
// link model (Model/Link.lean).  Toxicity is 0 or 1 and random draws are constant, so the
// outcome does not depend on the order in which concurrently restarted stubs draw.
//
// Abstract operations (= replay lines):
//
//	newlink <name> <up|down> | src <name> <nbytes> | srceof <name> | sink <name> 0|1 | sinkfail <name>
//	add <up|down> <tname> <type> <a1> <a2> <a3> <tox 0|1> | upd <tname> <type> <a1> <a2> <a3> <tox> | del <tname> | reset | adv <ns>
package e3

import (
	"context"
	"encoding/hex"
	"errors"
	"fmt"
	"io"
	"os"
	"sort"
	"strconv"
	"strings"
	"sync"
	"sync/atomic"
	"testing"
	"testing/synctest"
	"time"

	"github.com/rs/zerolog"

	toxiproxy "github.com/Shopify/toxiproxy/v2"
	"github.com/Shopify/toxiproxy/v2/stream"
	"github.com/Shopify/toxiproxy/v2/toxics"

	"verifharness/drv"
	"verifharness/report"
	"verifharness/run"
	"verifharness/vrand"
)

type Engine struct {
	D          *drv.Driver
	T          *testing.T
	OracleOnly bool
	Props      string
	CurFile    string
	seen       run.Seen
}

func New(d *drv.Driver, t *testing.T) *Engine { return &Engine{D: d, T: t, seen: run.Seen{}} }

func (e *Engine) Name() string { return "E3" }

func hx(b []byte) string {
	if len(b) == 0 {
		return "-"
	}
	return hex.EncodeToString(b)
}

type write struct {
	at   int64
	data []byte
}

// lnk is the harness side of one link: its source and sink.
type lnk struct {
	name     string
	dir      string
	t0       time.Time
	feed     chan []byte // source: next Read result; closed = EOF
	reads    atomic.Int32
	mu       sync.Mutex
	gate     chan struct{} // closed when the sink accepts; replaced when it blocks
	ready    bool
	fail     bool
	log      []write
	hist     []write // every write, never cleared
	markLen  int
	markAt   int64
	all      []byte
	sent     []byte
	closed   bool
	closedAt int64
	eof      bool
	ctr      byte
	tcap     int       // C10: bytes sent before a timeout toxic took effect on this link (-1: none in effect)
	lcap     int       // C11: upper bound of what a limit_data toxic lets through on this link (-1: none)
	born     int64     // virtual time the link was started
	sentAt   []sentSeg // which bytes were handed to the source when
	latMin   int64     // C08: latency (ms) of a latency toxic (toxicity 1, jitter 0) in effect since the link started, unchanged (-1: none)
	dueClose int64     // C10: latest virtual time by which a timeout toxic in effect since the link started must have closed it (-1: none)
}

type sentSeg struct {
	off int
	at  int64
}

type source struct{ l *lnk }

func (s source) Read(p []byte) (int, error) {
	d, ok := <-s.l.feed
	if !ok {
		return 0, io.EOF
	}
	s.l.reads.Add(1)
	return copy(p, d), nil
}

type sink struct{ l *lnk }

func (s sink) Write(p []byte) (int, error) {
	for {
		s.l.mu.Lock()
		if s.l.fail {
			s.l.mu.Unlock()
			return 0, errors.New("sink failure injected by the harness")
		}
		if s.l.ready {
			s.l.log = append(s.l.log, write{time.Since(s.l.t0).Nanoseconds(), append([]byte(nil), p...)})
			s.l.hist = append(s.l.hist, write{time.Since(s.l.t0).Nanoseconds(), append([]byte(nil), p...)})
			s.l.all = append(s.l.all, p...)
			s.l.mu.Unlock()
			return len(p), nil
		}
		g := s.l.gate
		s.l.mu.Unlock()
		<-g
	}
}

func (s sink) Close() error {
	s.l.mu.Lock()
	s.l.closed = true
	s.l.closedAt = time.Since(s.l.t0).Nanoseconds()
	s.l.mu.Unlock()
	return nil
}

func (l *lnk) setReady(b bool) {
	l.mu.Lock()
	defer l.mu.Unlock()
	if b && !l.ready {
		l.ready = true
		close(l.gate)
	} else if !b && l.ready {
		l.ready = false
		l.gate = make(chan struct{})
	}
}

func (l *lnk) setFail() {
	l.mu.Lock()
	defer l.mu.Unlock()
	l.fail = true
	if !l.ready {
		l.ready = true // wake a blocked writer; it sees fail first
		close(l.gate)
	}
}

func attrsJSON(ty string, a1, a2, a3 int64) string {
	switch ty {
	case "latency":
		return fmt.Sprintf(`{"latency":%d,"jitter":%d}`, a1, a2)
	case "bandwidth":
		return fmt.Sprintf(`{"rate":%d}`, a1)
	case "slicer":
		return fmt.Sprintf(`{"average_size":%d,"size_variation":%d,"delay":%d}`, a1, a2, a3)
	case "slow_close":
		return fmt.Sprintf(`{"delay":%d}`, a1)
	case "timeout":
		return fmt.Sprintf(`{"timeout":%d}`, a1)
	case "limit_data":
		return fmt.Sprintf(`{"bytes":%d}`, a1)
	}
	return "{}"
}

// Trace: what the oracles look at (implementation only).
type LinkTrace struct {
	Name          string
	Dir           string
	Sent          []byte
	Got           []byte
	Closed        bool
	SrcEOF        bool
	EverTimeout   bool // a timeout toxic was at some time in this link's direction
	EverLimit     bool
	EverSlowSink  bool // the sink was made to block / fail at some point
	AllPreserving bool
}

func (e *Engine) Run(ops []string, res *report.Result) (fail *report.Failure) {
	if e.CurFile != "" {
		os.WriteFile(e.CurFile, []byte(strings.Join(ops, "\n")+"\n"), 0o644)
	}
	e.D.Reset()
	func() {
		defer func() {
			if r := recover(); r != nil {
				if s := fmt.Sprint(r); strings.HasPrefix(s, "deadlock: main bubble goroutine") {
					res.Count("bubble:goroutines-left-blocked")
					return
				}
				panic(r)
			}
		}()
		if len(ops) > 0 && strings.HasPrefix(ops[0], "indep ") {
			synctest.Test(e.T, func(t *testing.T) { fail = e.independence(ops, res) })
			return
		}
		synctest.Test(e.T, func(t *testing.T) { fail = e.episode(ops, res) })
	}()
	return fail
}

// independence (C14, model-free): `indep N`: N connections are started at one instant through
// a proxy whose only toxic (latency 1000 ms) has toxicity 0.5, with the random source giving
// an independent sequence (not a scripted constant); one byte is sent on each. The toxic
// applies to a connection as a whole or not at all - and not to all N or to none of them
// (probability 2^(1-N) if the decisions are independent). The same after an update of the
// toxicity on the established connections (every stub draws again).
func (e *Engine) independence(ops []string, res *report.Result) *report.Failure {
	n := 40
	if w := strings.Fields(ops[0]); len(w) > 1 {
		if k, err := strconv.Atoi(w[1]); err == nil && k > 1 {
			n = k
		}
	}
	vrand.Reset()
	vrand.SetSeeded(0x5eed)
	defer vrand.Reset()
	t0 := time.Now()
	logger := zerolog.Nop()
	srv := toxiproxy.NewServer(toxiproxy.NewMetricsContainer(nil), logger)
	proxy := toxiproxy.NewProxy(srv, "p", "127.0.0.1:0", "127.0.0.1:9")
	if _, err := proxy.Toxics.AddToxicJson(strings.NewReader(`{"name":"t","type":"latency","stream":"upstream","toxicity":0.5,"attributes":{"latency":1000}}`)); err != nil {
		return nil
	}
	var links []*lnk
	for k := 0; k < n; k++ {
		l := &lnk{name: fmt.Sprintf("c%d", k), dir: "up", t0: t0, feed: make(chan []byte, 16), gate: make(chan struct{}), ready: true, ctr: 1, tcap: -1, lcap: -1}
		close(l.gate)
		links = append(links, l)
		proxy.Toxics.StartLink(srv, l.name, source{l}, sink{l}, stream.Upstream)
	}
	defer func() {
		for _, l := range links {
			close(l.feed)
		}
		synctest.Wait()
		time.Sleep(5 * time.Second)
		synctest.Wait()
	}()
	round := func(tag string) *report.Failure {
		base := make([]int, n)
		for k, l := range links {
			l.mu.Lock()
			base[k] = len(l.all)
			l.mu.Unlock()
			l.feed <- []byte{byte(k + 1)}
		}
		synctest.Wait()
		time.Sleep(10 * time.Millisecond)
		synctest.Wait()
		applied := 0
		var pat []byte
		for k, l := range links {
			l.mu.Lock()
			got := len(l.all) - base[k]
			l.mu.Unlock()
			if got == 0 {
				applied++
				pat = append(pat, '1')
			} else {
				pat = append(pat, '0')
			}
		}
		time.Sleep(2 * time.Second)
		synctest.Wait()
		res.Count(fmt.Sprintf("indep:%s:applied=%d/%d", tag, applied, n))
		if applied == 0 || applied == n {
			return &report.Failure{Kind: "oracle", Property: "C14", Ops: append([]string(nil), ops...), At: 0,
				Model: "some of the connections affected, some not (independent decisions with probability 0.5)",
				Impl:  fmt.Sprintf("%s: affected %d of %d: %s", tag, applied, n, pat),
				What:  fmt.Sprintf("with toxicity 0.5, %d connections %s were all treated alike: the toxic's per-connection decisions are not independent", n, tag),
				Sig:   "e3:C14:not-independent"}
		}
		return nil
	}
	if f := round("started at one instant"); f != nil {
		return f
	}
	proxy.Toxics.UpdateToxicJson("t", strings.NewReader(`{"toxicity":0.5,"attributes":{"latency":1000}}`))
	synctest.Wait()
	if f := round("after an update of the toxic on the established connections"); f != nil {
		return f
	}
	// frequency for toxicities that are not whole percents: every update of the toxic makes every
	// established connection draw again; over 100 updates x n connections the number of affected
	// connections must be near toxicity x draws (bounds more than six standard deviations wide)
	for _, tc := range []struct {
		tox    string
		lo, hi int
	}{{"0.005", 4, 60}, {"0.0155", 30, 110}} {
		applied, draws := 0, 0
		for k := 0; k < 100; k++ {
			proxy.Toxics.UpdateToxicJson("t", strings.NewReader(`{"toxicity":`+tc.tox+`,"attributes":{"latency":1000}}`))
			synctest.Wait()
			base := make([]int, n)
			for j, l := range links {
				l.mu.Lock()
				base[j] = len(l.all)
				l.mu.Unlock()
				l.feed <- []byte{byte(j + 1)}
			}
			synctest.Wait()
			time.Sleep(10 * time.Millisecond)
			synctest.Wait()
			for j, l := range links {
				l.mu.Lock()
				if len(l.all) == base[j] {
					applied++
				}
				l.mu.Unlock()
				draws++
			}
			time.Sleep(2 * time.Second)
			synctest.Wait()
		}
		res.Count(fmt.Sprintf("freq:toxicity=%s:applied=%d/%d", tc.tox, applied, draws))
		if applied < tc.lo || applied > tc.hi {
			return &report.Failure{Kind: "oracle", Property: "C14", Ops: append([]string(nil), ops...), At: 0,
				Model: fmt.Sprintf("between %d and %d of %d connections affected at toxicity %s", tc.lo, tc.hi, draws, tc.tox),
				Impl:  fmt.Sprintf("%d of %d", applied, draws),
				What:  fmt.Sprintf("with toxicity %s the toxic affected %d of %d connections: not with that probability", tc.tox, applied, draws),
				Sig:   "e3:C14:wrong-frequency"}
		}
	}
	res.Episodes++
	return nil
}

func (e *Engine) episode(ops []string, res *report.Result) *report.Failure {
	fail := func(at int, kind, prop, model, implS, what, sig string) *report.Failure {
		return &report.Failure{Kind: kind, Property: prop, Ops: append([]string(nil), ops...), At: at,
			Model: model, Impl: implS, What: what, Sig: sig}
	}
	vrand.Reset()
	vrand.SetFloat(0.5)
	t0 := time.Now()
	logger := zerolog.Nop()
	srv := toxiproxy.NewServer(toxiproxy.NewMetricsContainer(nil), logger)
	proxy := toxiproxy.NewProxy(srv, "p", "127.0.0.1:0", "127.0.0.1:9")
	links := map[string]*lnk{}
	var order []string
	var apiBusy atomic.Int32
	everTimeout := map[string]bool{}
	everLimit := map[string]bool{}
	everSlicer := map[string]bool{}
	everBandwidth := map[string]bool{}
	toxZero := map[string]bool{}   // toxicity given as exactly 0
	lastSelf := map[string]int64{} // toxic -> virtual time of its own add / last update
	var lastDone atomic.Int64      // virtual time at which the latest API call returned
	// C11 (moment of the close): directions whose only toxic ever is one limit_data toxic at toxicity 1
	// ("" none yet, "*" disqualified), and the limits it had, with the virtual time they were set
	limOnly := map[string]string{}
	type limEv struct{ at, lim int64 }
	limHist := map[string][]limEv{}
	// a probe is valid only as generated: `mark`, then the same payloads on both links and
	// nothing but clock advances in between (the minimiser must not shrink it into something else)
	probeMarked := false
	probeSrc := map[string][]string{}
	toxDir := map[string]string{}
	toxType := map[string]string{}
	allowBlock := false
	sawBadUpdate := false
	sinkAlways := map[string]bool{}
	freeRun := false
	chainOf := map[string][]string{} // direction -> names in chain order (the harness' own view)
	attrsOf := map[string][3]int64{}
	lastCfg := map[string]int64{} // direction -> virtual time of the last toxic change
	// model-free oracles of C10 / C11: which timeout / limit_data toxics are in effect (toxicity 1),
	// and per link how much may still come out (see capOracle)
	toxOn := map[string]bool{}  // name -> currently applied with toxicity 1
	limitOf := map[string]int{} // limit_data name -> limit
	limBase := map[string]int{} // link name -> bytes sent before its limit_data toxic was added
	c10Off := map[string]bool{} // direction -> a timeout toxic was switched off by an update: stream may resume
	c11Off := map[string]bool{} // direction -> limit_data removed / switched off / several of them
	var result *report.Failure
	var shape []string
	lastPcs := ""
	defer func() {
		// let everything finish: open all sinks, end all sources, let time pass
		for _, l := range links {
			l.setReady(true)
			if !l.eof {
				close(l.feed)
				l.eof = true
			}
		}
		for k := 0; k < 3; k++ {
			synctest.Wait()
			time.Sleep(30 * time.Second)
		}
		synctest.Wait()
	}()
	since := func() int64 { return time.Since(t0).Nanoseconds() }
	for i, op := range ops {
		w := strings.Fields(op)
		res.Ops++
		line := op
		var exec func()
		switch w[0] {
		case "allowblock":
			// harness only (directed episodes): API calls that have to wait for a stage to finish
			// its hand-over are executed, not skipped. The episode must not start or end a link
			// while such a call is waiting (nothing else may need the collection mutex).
			allowBlock = true
			continue
		case "newlink":
			exec = func() {
				l := &lnk{name: w[1], dir: w[2], t0: t0, feed: make(chan []byte, 4096), gate: make(chan struct{}), ready: true, ctr: byte(1 + 40*len(links)), tcap: -1, lcap: -1, latMin: -1, dueClose: -1, born: since()}
				close(l.gate)
				for _, n := range chainOf[w[2]] {
					if !toxOn[n] {
						continue
					}
					a := attrsOf[n]
					if toxType[n] == "latency" && a[1] == 0 && a[0] > l.latMin {
						l.latMin = a[0]
					}
					// (only when it is the direction's only toxic: a slow_close behind it delays the close)
					if toxType[n] == "timeout" && a[0] > 0 && len(chainOf[w[2]]) == 1 && (l.dueClose < 0 || l.born+a[0]*1000000 < l.dueClose) {
						l.dueClose = l.born + a[0]*1000000
					}
				}
				for n, on := range toxOn {
					if !on || toxDir[n] != w[2] {
						continue
					}
					if toxType[n] == "timeout" {
						l.tcap = 0
					}
					if toxType[n] == "limit_data" {
						c := limitOf[n]
						if c < 0 {
							c = 0
						}
						if l.lcap >= 0 {
							c11Off[w[2]] = true
						}
						l.lcap = c
						limBase[w[1]] = 0
					}
				}
				links[w[1]] = l
				sinkAlways[w[1]] = true
				order = append(order, w[1])
				d := stream.Upstream
				if w[2] == "down" {
					d = stream.Downstream
				}
				proxy.Toxics.StartLink(srv, w[1], source{l}, sink{l}, d)
			}
		case "src":
			if probeMarked {
				probeSrc[w[1]] = append(probeSrc[w[1]], w[2])
			}
			l := links[w[1]]
			n, _ := strconv.Atoi(w[2])
			data := make([]byte, n)
			if l != nil {
				for k := range data {
					data[k] = l.ctr
					l.ctr++
					if l.ctr == 0 {
						l.ctr = 1
					}
				}
			}
			line = fmt.Sprintf("src %s %s", w[1], hx(data))
			exec = func() {
				l.sentAt = append(l.sentAt, sentSeg{len(l.sent), since()})
				l.feed <- data
				l.sent = append(l.sent, data...)
			}
			if l == nil || l.eof {
				exec = nil
			}
		case "srceof":
			l := links[w[1]]
			exec = func() { close(l.feed); l.eof = true }
			if l == nil || l.eof {
				exec = nil
			}
		case "sink":
			l := links[w[1]]
			exec = func() {
				if w[2] != "1" {
					sinkAlways[w[1]] = false
				}
				l.setReady(w[2] == "1")
			}
			if l == nil {
				exec = nil
			}
		case "sinkfail":
			l := links[w[1]]
			exec = func() { l.setFail() }
			if l == nil {
				exec = nil
			}
		case "add":
			a1, _ := strconv.ParseInt(w[4], 10, 64)
			a2, _ := strconv.ParseInt(w[5], 10, 64)
			a3, _ := strconv.ParseInt(w[6], 10, 64)
			st := "upstream"
			if w[1] == "down" {
				st = "downstream"
			}
			body := fmt.Sprintf(`{"name":%q,"type":%q,"stream":%q,"toxicity":%s,"attributes":%s}`, w[2], w[3], st, w[7], attrsJSON(w[3], a1, a2, a3))
			exec = func() {
				toxDir[w[2]] = w[1]
				toxType[w[2]] = w[3]
				if w[3] == "timeout" {
					everTimeout[w[1]] = true
				}
				if w[3] == "limit_data" {
					everLimit[w[1]] = true
				}
				if w[3] == "slicer" {
					everSlicer[w[1]] = true
				}
				if w[3] == "bandwidth" {
					everBandwidth[w[1]] = true
				}
				toxZero[w[2]] = w[7] == "0"
				lastSelf[w[2]] = since()
				if limOnly[w[1]] == "" && w[3] == "limit_data" && w[7] == "1" {
					limOnly[w[1]] = w[2]
					limHist[w[1]] = append(limHist[w[1]], limEv{since(), a1})
				} else {
					limOnly[w[1]] = "*"
				}
				chainOf[w[1]] = append(chainOf[w[1]], w[2])
				attrsOf[w[2]] = [3]int64{a1, a2, a3}
				lastCfg[w[1]] = since()
				for _, l := range links {
					if l.dir == w[1] {
						l.latMin, l.dueClose = -1, -1
					}
				}
				toxOn[w[2]] = w[7] == "1"
				if w[7] == "1" && w[3] == "timeout" {
					for _, l := range links {
						if l.dir == w[1] && (l.tcap < 0 || len(l.sent) < l.tcap) {
							l.tcap = len(l.sent)
						}
					}
				}
				if w[3] == "limit_data" {
					limitOf[w[2]] = int(a1)
					if w[7] == "1" {
						for _, l := range links {
							if l.dir != w[1] {
								continue
							}
							if l.lcap >= 0 {
								c11Off[w[1]] = true
							}
							c := int(a1)
							if c < 0 {
								c = 0
							}
							limBase[l.name] = len(l.sent)
							l.lcap = len(l.sent) + c
						}
					}
				}
				apiBusy.Add(1)
				go func() {
					proxy.Toxics.AddToxicJson(strings.NewReader(body))
					lastDone.Store(time.Since(t0).Nanoseconds())
					apiBusy.Add(-1)
				}()
			}
		case "upd":
			a1, _ := strconv.ParseInt(w[3], 10, 64)
			a2, _ := strconv.ParseInt(w[4], 10, 64)
			a3, _ := strconv.ParseInt(w[5], 10, 64)
			body := fmt.Sprintf(`{"toxicity":%s,"attributes":%s}`, w[6], attrsJSON(w[2], a1, a2, a3))
			exec = func() {
				d := toxDir[w[1]]
				was := toxOn[w[1]]
				if limOnly[d] == w[1] && w[6] == "1" {
					limHist[d] = append(limHist[d], limEv{since(), a1})
				} else if limOnly[d] != "" {
					limOnly[d] = "*"
				}
				attrsOf[w[1]] = [3]int64{a1, a2, a3}
				lastCfg[d] = since()
				for _, l := range links {
					if l.dir == d {
						l.latMin, l.dueClose = -1, -1
					}
				}
				toxOn[w[1]] = w[6] == "1"
				toxZero[w[1]] = w[6] == "0"
				lastSelf[w[1]] = since()
				switch toxType[w[1]] {
				case "timeout":
					if w[6] != "1" {
						c10Off[d] = true
					} else if !was {
						for _, l := range links {
							if l.dir == d && (l.tcap < 0 || len(l.sent) < l.tcap) {
								l.tcap = len(l.sent)
							}
						}
					}
				case "limit_data":
					limitOf[w[1]] = int(a1)
					if w[6] != "1" || !was {
						c11Off[d] = true
					} else {
						for _, l := range links {
							if l.dir != d || l.lcap < 0 {
								continue
							}
							// what has passed the toxic so far is at most the old allowance and at most
							// what was sent since it was added; the update allows max(that, new limit)
							base := limBase[l.name]
							passed := l.lcap - base
							if len(l.sent)-base < passed {
								passed = len(l.sent) - base
							}
							c := int(a1)
							if c < passed {
								c = passed
							}
							l.lcap = base + c
						}
					}
				}
				apiBusy.Add(1)
				go func() {
					proxy.Toxics.UpdateToxicJson(w[1], strings.NewReader(body))
					lastDone.Store(time.Since(t0).Nanoseconds())
					apiBusy.Add(-1)
				}()
			}
		case "updbad":
			// a toxic update whose body does not decode: answered with an error, changes nothing -
			// not the configuration and not the treatment of the connections (C06). For the model
			// it is no operation at all.
			line = "adv 0"
			exec = func() {
				sawBadUpdate = true
				apiBusy.Add(1)
				go func() {
					proxy.Toxics.UpdateToxicJson(w[1], strings.NewReader(`{"attributes":{"latency":"x","rate":"x","delay":"x","timeout":"x","bytes":"x","average_size":"x"},"toxicity":"x"}`))
					lastDone.Store(time.Since(t0).Nanoseconds())
					apiBusy.Add(-1)
				}()
			}
		case "del":
			exec = func() {
				if toxType[w[1]] == "limit_data" {
					c11Off[toxDir[w[1]]] = true
				}
				d := toxDir[w[1]]
				limOnly[d] = "*"
				lastCfg[d] = since()
				for k, n := range chainOf[d] {
					if n == w[1] {
						chainOf[d] = append(append([]string{}, chainOf[d][:k]...), chainOf[d][k+1:]...)
						break
					}
				}
				for _, l := range links {
					if l.dir == d {
						l.latMin, l.dueClose = -1, -1
					}
				}
				delete(toxOn, w[1])
				apiBusy.Add(1)
				go func() {
					proxy.Toxics.RemoveToxic(context.Background(), w[1])
					lastDone.Store(time.Since(t0).Nanoseconds())
					apiBusy.Add(-1)
				}()
			}
		case "reset":
			line = "resettoxics"
			exec = func() {
				for n := range toxOn {
					if toxType[n] == "limit_data" {
						c11Off[toxDir[n]] = true
					}
					delete(toxOn, n)
				}
				for d := range chainOf {
					chainOf[d] = nil
					lastCfg[d] = since()
				}
				limOnly["up"], limOnly["down"] = "*", "*"
				for _, l := range links {
					l.latMin, l.dueClose = -1, -1
				}
				apiBusy.Add(1)
				go func() {
					proxy.Toxics.ResetToxics(context.Background())
					lastDone.Store(time.Since(t0).Nanoseconds())
					apiBusy.Add(-1)
				}()
			}
		case "adv":
			d, _ := strconv.ParseInt(w[1], 10, 64)
			exec = func() { time.Sleep(time.Duration(d)) }
		case "mark":
			// harness only: remember where every sink's log stands (start of a probe)
			// … and a probe only makes sense on links that are at rest (no chunk asleep in a toxic,
			// none waiting to be taken): a backlog on the old link is not a difference of toxics
			probeMarked = !strings.Contains(lastPcs, "nap") && !strings.Contains(lastPcs, "out") && !strings.Contains(lastPcs, "flush")
			probeSrc = map[string][]string{}
			for _, l := range links {
				l.mu.Lock()
				l.markLen = len(l.hist)
				l.markAt = since()
				l.mu.Unlock()
			}
			continue
		case "probecheck":
			// harness only (model-free oracle of C04/C14): the old link w[1] and the link w[2]
			// started after the last configuration change got the same probe at the same
			// moments; with the same toxics in effect they must treat it identically
			a, z := links[w[1]], links[w[2]]
			if a == nil || z == nil || apiBusy.Load() > 0 {
				continue
			}
			if !probeMarked || len(probeSrc[w[1]]) == 0 || strings.Join(probeSrc[w[1]], ",") != strings.Join(probeSrc[w[2]], ",") {
				res.Count("skipped:probe-not-as-generated")
				probeMarked = false
				continue
			}
			probeMarked = false
			a.mu.Lock()
			z.mu.Lock()
			okA := !a.closed && !a.eof && a.ready && !a.fail
			var sa, sz []string
			for _, x := range a.hist[a.markLen:] {
				sa = append(sa, fmt.Sprintf("%d:%d", x.at-a.markAt, len(x.data)))
			}
			for _, x := range z.hist[z.markLen:] {
				sz = append(sz, fmt.Sprintf("%d:%d", x.at-z.markAt, len(x.data)))
			}
			zc, ac := z.closed, a.closed
			z.mu.Unlock()
			a.mu.Unlock()
			if okA && !everLimit[a.dir] && (strings.Join(sa, " ") != strings.Join(sz, " ") || zc != ac) {
				prop := "C04"
				if strings.Contains(","+e.Props+",", ",C14,") && !strings.Contains(","+e.Props+",", ",C04,") {
					prop = "C14"
				}
				if e.Props == "C08" {
					// (checked for C08: the same burst is delayed differently on a connection made
					// after the change - throttled, or not delayed by latency +/- jitter)
					prop = "C08"
				}
				result = fail(i, "oracle", prop, "", fmt.Sprintf("old link %s: [%s] closed=%v; new link %s: [%s] closed=%v (time since probe start : bytes)", a.name, strings.Join(sa, " "), ac, z.name, strings.Join(sz, " "), zc),
					"a connection established before the latest configuration change and one established after it treat the same traffic differently: the listed toxics are not what is in effect on both", "e3:"+prop+":old-vs-new")
			}
			if result != nil {
				break
			}
			continue
		default:
			return nil
		}
		if result != nil {
			break
		}
		if exec == nil {
			res.Count("skipped:no-such-link")
			continue
		}
		if (w[0] == "add" || w[0] == "upd" || w[0] == "del" || w[0] == "reset") && !allowBlock {
			// An API call that cannot complete at once (it waits for a blocked receiver or
			// for a timer) keeps the collection mutex; a goroutine then waiting for that
			// mutex is not "durably blocked" for synctest and virtual time would stop.
			// Such calls are outside C02's proviso anyway: ask the model first, skip them.
			if pre := e.D.Ask("try " + line); strings.Contains(pre, "api=busy") {
				res.Count("skipped:api-call-would-block")
				continue
			}
		}
		if freeRun {
			exec()
			synctest.Wait()
			res.Count("op:" + w[0])
			continue
		}
		model := e.D.Ask(line)
		if strings.HasPrefix(model, "bad-op") {
			res.Count("skipped:" + strings.ReplaceAll(model, " ", "_"))
			continue
		}
		mObs, mGuide, _ := strings.Cut(model, " | ")
		mObs = strings.Join(strings.Fields(mObs), " ")
		if strings.Contains(mObs, "crash=") {
			res.Count("model-predicts-crash")
			break
		}
		if strings.Contains(mGuide, "race=1") {
			if allowBlock {
				// a directed episode: its operations are valid whatever the `select` picked; go on
				// without the model (nothing is compared any more), the model-free oracles at the
				// end still apply to what the implementation does
				freeRun = true
				res.Count("episode:free-run-after-select-race")
			} else {
				res.Count("episode:stopped-at-select-race")
				break
			}
		}
		if w[0] == "add" || w[0] == "upd" || w[0] == "del" || w[0] == "reset" {
			// which internal states the reconfiguration hits (coverage of "at every hand-off")
			for _, f := range strings.Fields(lastPcs) {
				if i := strings.Index(f, "["); i > 0 {
					res.Count("api-at:" + f[i:])
				}
			}
		}
		exec()
		synctest.Wait()
		lastPcs = pcsOf(mGuide)
		res.Count("op:" + w[0])
		if freeRun {
			continue
		}
		// observe exactly the links the model still lists
		mf := strings.Fields(mObs)
		if len(mf) < 3 {
			result = fail(i, "disagreement", "", model, "", "unexpected driver reply to "+line, "e3:driver")
			break
		}
		busy := apiBusy.Load() > 0
		api := "idle"
		if busy {
			api = "busy"
		}
		chain := ""
		if busy {
			for _, f := range mf {
				if strings.HasPrefix(f, "chain=") {
					chain = f // the listing needs the collection mutex: not observable now
				}
			}
		} else {
			var up, down []string
			for _, tx := range proxy.Toxics.GetToxicArray() {
				tw := tx.(*toxics.ToxicWrapper)
				if tw.Stream == "upstream" {
					up = append(up, tw.Name)
				} else {
					down = append(down, tw.Name)
				}
			}
			chain = "chain=" + strings.Join(up, ",") + "/" + strings.Join(down, ",")
		}
		parts := []string{fmt.Sprintf("t=%d", since()), "api=" + api, chain}
		for _, f := range mf[3:] {
			name, _, ok := strings.Cut(f, ":")
			if !ok {
				continue
			}
			l := links[name]
			if l == nil {
				continue
			}
			l.mu.Lock()
			var ems []string
			for _, x := range l.log {
				ems = append(ems, fmt.Sprintf("%d:%s", x.at, hx(x.data)))
			}
			l.log = nil
			c := "0"
			if l.closed {
				c = "1"
			}
			l.mu.Unlock()
			em := "-"
			if len(ems) > 0 {
				em = strings.Join(ems, ";")
			}
			parts = append(parts, fmt.Sprintf("%s:r=%d,c=%s,em=%s", name, l.reads.Load(), c, em))
		}
		got := strings.Join(parts, " ")
		if got != mObs && !e.OracleOnly {
			result = fail(i, "disagreement", "", mObs, got, "link observables differ ("+pcsOf(mGuide)+")", "e3:obs")
			break
		}
		shape = append(shape, w[0]+"@"+pcsOf(mGuide))
	}
	// ---- model-free oracles (C01, C02) on what the sinks actually got
	finished := false
	if result == nil || e.OracleOnly {
		// first at the point the episode stopped …
		for _, n := range order {
			l := links[n]
			l.mu.Lock()
			got := append([]byte(nil), l.all...)
			l.mu.Unlock()
			if of := e.streamOracle(fail, len(ops)-1, l, got, everTimeout[l.dir], everLimit[l.dir], everSlicer[l.dir], everBandwidth[l.dir]); of != nil {
				result = of
				break
			}
			if of := capOracle(fail, len(ops)-1, l, got, c10Off[l.dir], c11Off[l.dir]); of != nil {
				result = of
				break
			}
			// C11: with a limit_data toxic as the only toxic its direction ever had (in place before the
			// connection), the connection is closed by data that reaches the limit in force when it
			// arrives - not by the toxic being started or updated
			if nm := limOnly[l.dir]; nm != "" && nm != "*" && l.born > limHist[l.dir][0].at && apiBusy.Load() == 0 {
				l.mu.Lock()
				closed, closedAt, lfail := l.closed, l.closedAt, l.fail
				l.mu.Unlock()
				if closed && !l.eof && !lfail {
					justified := false
					for k, sg := range l.sentAt {
						end := len(l.sent)
						if k+1 < len(l.sentAt) {
							end = l.sentAt[k+1].off
						}
						if sg.at > closedAt {
							break
						}
						// the limit set last before the chunk, and any limit set at that very instant
						var cand []int64
						last := int64(-1)
						for _, ev := range limHist[l.dir] {
							if ev.at < sg.at {
								last = ev.lim
							} else if ev.at == sg.at {
								cand = append(cand, ev.lim)
							}
						}
						cand = append(cand, last)
						for _, lim := range cand {
							justified = justified || int64(end) >= lim
						}
					}
					if !justified {
						result = fail(len(ops)-1, "oracle", "C11", "open until data reaches the limit", fmt.Sprintf("link %s: closed at t=%d with %d bytes handed in; limits %v", l.name, closedAt, len(l.sent), limHist[l.dir]),
							"a connection under a limit_data toxic was closed although no data had arrived that reaches the limit (the close belongs to the first data at or beyond the limit, not to the toxic being started or updated)", "e3:C11:closed-before-limit")
						break
					}
				}
			}
		}
	}
	if (result == nil || e.OracleOnly) && apiBusy.Load() == 0 {
		// … then after letting everything drain: sinks ready, sources ended, time passes
		failed := map[string]bool{}
		for _, l := range links {
			l.mu.Lock()
			failed[l.name] = l.fail
			l.mu.Unlock()
			l.setReady(true)
			if !l.eof {
				close(l.feed)
				l.eof = true
			}
		}
		// virtual time is free: keep going until nothing has moved for a while
		quiet, lastTotal := 0, -1
		for k := 0; k < 2000 && quiet < 4; k++ {
			synctest.Wait()
			time.Sleep(60 * time.Second)
			synctest.Wait()
			total := 0
			for _, l := range links {
				l.mu.Lock()
				total += len(l.all)
				if l.closed {
					total++
				}
				l.mu.Unlock()
			}
			if total == lastTotal {
				quiet++
			} else {
				quiet = 0
			}
			lastTotal = total
		}
		finished = true
		for _, n := range order {
			l := links[n]
			l.mu.Lock()
			got := append([]byte(nil), l.all...)
			closed := l.closed
			l.mu.Unlock()
			if of := capOracle(fail, len(ops)-1, l, got, c10Off[l.dir], c11Off[l.dir]); of != nil && (result == nil || e.OracleOnly) {
				result = of
				break
			}
			if of := timingOracle(fail, len(ops)-1, l, since(), failed[l.name], everTimeout[l.dir]); of != nil && (result == nil || e.OracleOnly) {
				if sawBadUpdate {
					of.Property, of.Sig = "C06", "e3:C06:rejected-update-changed-treatment"
					of.What = "after a toxic update that was rejected (undecodable body): " + of.What
				}
				result = of
				break
			}
			// C04/C08/C14: a direction whose only toxic is a latency toxic (jitter 0, latency L as listed
			// now, toxicity exactly 1 - or exactly 0, then it must not delay at all): with a receiver
			// that was ready throughout, every byte has arrived by max(hand-in + L, last toxic change) -
			// a connection made before the last update included -, and a byte handed in after the last
			// API call returned is not forwarded before hand-in + L
			if ch := chainOf[l.dir]; len(ch) == 1 && toxType[ch[0]] == "latency" && (toxOn[ch[0]] || toxZero[ch[0]]) && attrsOf[ch[0]][1] == 0 && attrsOf[ch[0]][0] >= 0 &&
				!failed[l.name] && apiBusy.Load() == 0 && (result == nil || e.OracleOnly) {
				L := attrsOf[ch[0]][0] * 1000000
				if !toxOn[ch[0]] {
					L = 0
				}
				l.mu.Lock()
				off := 0
				for _, wr := range l.hist {
					var first int64 = -1
					for _, sg := range l.sentAt {
						if sg.off <= off {
							first = sg.at
						}
					}
					off += len(wr.data)
					due := first + L
					if lastCfg[l.dir] > due {
						due = lastCfg[l.dir]
					}
					if sinkAlways[l.name] && first >= 0 && wr.at > due+1000000 {
						prop, sig := "C08", "e3:C08:forwarded-late"
						if lastSelf[ch[0]] > l.born {
							prop, sig = "C04", "e3:C04:update-not-in-effect-on-old-connection"
						}
						if !toxOn[ch[0]] {
							prop, sig = "C14", "e3:C14:toxicity-zero-still-applied"
							if strings.Contains(","+e.Props+",", ",C04,") && !strings.Contains(","+e.Props+",", ",C14,") {
								// (listed with toxicity 0, in effect all the same: also C04's subject)
								prop, sig = "C04", "e3:C04:listed-toxicity-zero-still-in-effect"
							}
						}
						result = fail(len(ops)-1, "oracle", prop, fmt.Sprintf("by t=%d", due), fmt.Sprintf("link %s: bytes handed in at t=%d forwarded at t=%d (latency listed: %d ms, toxicity on=%v, last toxic change t=%d)", l.name, first, wr.at, attrsOf[ch[0]][0], toxOn[ch[0]], lastCfg[l.dir]),
							"with a ready receiver a piece was held longer than the listed latency toxic allows (counted from its arrival, or from the toxic's last update if that is later)", sig)
						break
					}
					if first > lastDone.Load() && first > lastCfg[l.dir] && wr.at < first+L-1000000 {
						prop, sig := "C08", "e3:C08:forwarded-early-after-change"
						if lastSelf[ch[0]] > l.born {
							prop, sig = "C04", "e3:C04:listed-latency-not-applied-on-old-connection"
						}
						result = fail(len(ops)-1, "oracle", prop, fmt.Sprintf("not before t=%d", first+L), fmt.Sprintf("link %s: bytes handed in at t=%d forwarded at t=%d (latency listed: %d ms, last toxic change t=%d, returned t=%d)", l.name, first, wr.at, attrsOf[ch[0]][0], lastCfg[l.dir], lastDone.Load()),
							"a piece handed in after the last toxic change had returned passed the direction's only toxic, a latency toxic at toxicity 1, earlier than its listed latency", sig)
						break
					}
				}
				l.mu.Unlock()
				if result != nil {
					break
				}
			}
			// C15/C07: whatever the toxics - the source has ended, the receiver accepts, unlimited
			// virtual time has passed, no API call is pending: the link has ended
			if !closed && !failed[l.name] && apiBusy.Load() == 0 && (result == nil || e.OracleOnly) {
				result = fail(len(ops)-1, "oracle", "C15", "closed", fmt.Sprintf("link %s: still open", l.name),
					"a connection whose sender has ended and whose receiver accepts everything never ends (its goroutines and its entry in the collection stay)", "e3:C15:link-never-ends")
				break
			}
			// C12: a direction whose only toxic is a slicer (toxicity 1): every piece written after
			// the last toxic change is at most average_size + size_variation long
			if ch := chainOf[l.dir]; len(ch) == 1 && toxType[ch[0]] == "slicer" && toxOn[ch[0]] && (result == nil || e.OracleOnly) {
				a := attrsOf[ch[0]]
				if bound := a[0] + a[1]; a[0] > 0 && a[1] >= 0 && a[1] < a[0] {
					l.mu.Lock()
					off := 0
					for _, wr := range l.hist {
						// only pieces all of whose bytes were handed to the proxy after the toxic's last
						// change: what was already past the slicer's position (or buffered) then is not its
						first := int64(-1)
						for _, sg := range l.sentAt {
							if sg.off <= off {
								first = sg.at
							}
						}
						off += len(wr.data)
						if first > lastCfg[l.dir] && wr.at > l.born && int64(len(wr.data)) > bound {
							result = fail(len(ops)-1, "oracle", "C12", fmt.Sprintf("pieces of at most %d bytes", bound), fmt.Sprintf("link %s: a piece of %d bytes at t=%d (last toxic change at t=%d)", l.name, len(wr.data), wr.at, lastCfg[l.dir]),
								"with a slicer as the only toxic, a piece larger than average_size + size_variation was forwarded after the toxic's last update", "e3:C12:piece-too-large-after-update")
							break
						}
					}
					l.mu.Unlock()
					if result != nil {
						break
					}
				}
			}
			if !everTimeout[l.dir] && !everLimit[l.dir] && !failed[l.name] && apiBusy.Load() == 0 {
				if string(got) != string(l.sent) || !closed {
					prop := "C02"
					if strings.Contains(","+e.Props+",", ",C01,") && !strings.Contains(","+e.Props+",", ",C02,") {
						prop = "C01"
					}
					if e.Props == "C12" && everSlicer[l.dir] {
						prop = "C12"
					}
					if e.Props == "C09" && everBandwidth[l.dir] {
						prop = "C09"
					}
					result = fail(len(ops)-1, "oracle", prop, "", fmt.Sprintf("link %s: sent %d bytes, got %d, closed=%v", l.name, len(l.sent), len(got), closed),
						"with only data-preserving toxics the complete stream was not delivered (or end-of-stream not propagated) after the sender closed", "e3:"+prop+":incomplete")
					break
				}
			}
		}
	}
	_ = finished
	if false {
		names := append([]string(nil), order...)
		sort.Strings(names)
		for _, n := range names {
			l := links[n]
			l.mu.Lock()
			got := append([]byte(nil), l.all...)
			l.mu.Unlock()
			if of := e.streamOracle(fail, len(ops)-1, l, got, everTimeout[l.dir], everLimit[l.dir], everSlicer[l.dir], everBandwidth[l.dir]); of != nil {
				if result == nil || e.OracleOnly {
					result = of
				}
				break
			}
		}
	}
	if result == nil {
		res.Episodes++
		if len(shape) > 2 && e.seen.Add(strings.Join(shape, ">")) {
			res.Distinct++
			res.AddSample(map[string]any{"ops": strings.Join(ops, " ; ")}, 6)
		}
	}
	return result
}

func pcsOf(guide string) string {
	if i := strings.Index(guide, "pcs="); i >= 0 {
		return guide[i+4:]
	}
	return "?"
}

func isSubsequence(sub, full []byte) bool {
	j := 0
	for i := 0; i < len(full) && j < len(sub); i++ {
		if full[i] == sub[j] {
			j++
		}
	}
	return j == len(sub)
}

// timingOracle (C08, C10; model-free), for toxics that were in effect when the link started and
// have not been touched since (no toxic change in the direction at all): a latency toxic
// (jitter 0) delays every byte by at least its latency; a timeout toxic with T > 0 has closed the
// connection T ms after the link started, whatever traffic arrived meanwhile.
func timingOracle(fail func(int, string, string, string, string, string, string) *report.Failure, at int, l *lnk, now int64, sinkFailed, everTimeout bool) *report.Failure {
	l.mu.Lock()
	defer l.mu.Unlock()
	if l.latMin > 0 && !everTimeout {
		off := 0
		for _, wr := range l.hist {
			end := off + len(wr.data)
			// the latest hand-in time among the bytes of this write
			var sent int64 = -1
			for _, sg := range l.sentAt {
				if sg.off < end {
					sent = sg.at
				}
			}
			if sent >= 0 && wr.at < sent+l.latMin*1000000 {
				return fail(at, "oracle", "C08", fmt.Sprintf("no earlier than %d ms after it was sent", l.latMin), fmt.Sprintf("link %s: bytes [%d,%d) sent at t=%d forwarded at t=%d", l.name, off, end, sent, wr.at),
					"a piece passed a latency toxic (in effect since the connection started) earlier than latency - jitter after the proxy received it", "e3:C08:forwarded-early")
			}
			off = end
		}
	}
	if l.dueClose >= 0 && !sinkFailed && now > l.dueClose+1000000 && (!l.closed || l.closedAt > l.dueClose+1000000) {
		return fail(at, "oracle", "C10", fmt.Sprintf("closed by t=%d", l.dueClose), fmt.Sprintf("link %s: closed=%v at t=%d (now t=%d)", l.name, l.closed, l.closedAt, now),
			"a connection with a timeout toxic (T > 0, in effect since it started) was not closed T ms after the toxic took effect", "e3:C10:not-closed-in-time")
	}
	return nil
}

// capOracle (C10, C11; model-free): nothing sent while a timeout toxic (toxicity 1) was in effect
// on the link is ever delivered - not while it is there and not after it was removed (removal
// closes the connection); a limit_data toxic (toxicity 1) never lets more through than its limit
// allows, counted per connection across updates of the limit.
func capOracle(fail func(int, string, string, string, string, string, string) *report.Failure, at int, l *lnk, got []byte, c10Off, c11Off bool) *report.Failure {
	if l.tcap >= 0 && !c10Off && len(got) > l.tcap {
		return fail(at, "oracle", "C10", fmt.Sprintf("at most the %d bytes sent before the timeout toxic took effect", l.tcap), fmt.Sprintf("link %s: got %d bytes: %s", l.name, len(got), hx(got)),
			"bytes sent while a timeout toxic was in effect on the connection were delivered (during the timeout or after its removal)", "e3:C10:timeout-leaks")
	}
	if l.lcap >= 0 && !c11Off && len(got) > l.lcap {
		return fail(at, "oracle", "C11", fmt.Sprintf("at most %d bytes", l.lcap), fmt.Sprintf("link %s: got %d bytes", l.name, len(got)),
			"a connection with a limit_data toxic received more than the limit allows (the budget is per connection and carries over updates of the limit)", "e3:C11:limit-exceeded")
	}
	return nil
}

// streamOracle: what a sink received is an in-order part of what its source sent, and a
// prefix of it unless a timeout toxic was ever applied in that direction (C02); with no
// dropping/truncating toxic ever present it is a prefix at all times (C01).
func (e *Engine) streamOracle(fail func(int, string, string, string, string, string, string) *report.Failure, at int, l *lnk, got []byte, everTimeout, everLimit, everSlicer, everBandwidth bool) *report.Failure {
	prop := "C02"
	// (C12: "re-chunks without changing the stream" - a stream that passed a slicer and is changed)
	if e.Props == "C12" && everSlicer {
		prop = "C12"
	}
	// (C09: "order and content are preserved")
	if e.Props == "C09" && everBandwidth {
		prop = "C09"
	}
	if strings.Contains(","+e.Props+",", ",C01,") && !strings.Contains(","+e.Props+",", ",C02,") {
		prop = "C01"
	}
	if !everTimeout {
		if len(got) > len(l.sent) || string(got) != string(l.sent[:len(got)]) {
			return fail(at, "oracle", prop, "", fmt.Sprintf("link %s: sent %s got %s", l.name, hx(l.sent), hx(got)),
				"what the receiver got is not a prefix of what was sent (bytes lost, duplicated, reordered or altered)", "e3:"+prop+":not-prefix")
		}
	} else if !isSubsequence(got, l.sent) {
		return fail(at, "oracle", prop, "", fmt.Sprintf("link %s: sent %s got %s", l.name, hx(l.sent), hx(got)),
			"what the receiver got is not an in-order part of what was sent", "e3:"+prop+":not-subsequence")
	}
	return nil
}
