package e3

import (
	"fmt"
	"strings"

	"verifharness/report"
	"verifharness/rng"
	"verifharness/run"
)

const MS = 1000000

var Corpus = [][]string{}

// Directed builds the episodes in which a reconfiguration hits a stage that has finished its own
// work on a chunk and is blocked handing it to a busy neighbour (or to a sink that does not
// accept), for every kind of first and second stage and every kind of reconfiguration; and the
// ones in which a lossy toxic is reconfigured with data on both sides of it.
func Directed() [][]string {
	var out [][]string
	type tx struct {
		ty         string
		a1, a2, a3 int64
	}
	firsts := []tx{{"latency", 20, 0, 0}, {"slicer", 64, 0, 1000}, {"slicer", 64, 0, 50000}, {"bandwidth", 10, 0, 0}, {"noop", 0, 0, 0},
		{"slow_close", 100, 0, 0}, {"limit_data", 1015, 0, 0}}
	// (the second stage never holds a piece for five seconds: C02's proviso; 1000 bytes take
	// bandwidth(1 KB/s) and slicer(2 bytes / 2 ms) one second)
	seconds := []tx{{"bandwidth", 1, 0, 0}, {"slicer", 2, 0, 2000}}
	actions := []string{"upd1", "del1", "upd2", "del2", "add3", "reset"}
	for _, f := range firsts {
		for _, sc := range seconds {
			for _, a := range actions {
				ops := []string{"allowblock",
					fmt.Sprintf("add up t1 %s %d %d %d 1", f.ty, f.a1, f.a2, f.a3),
					fmt.Sprintf("add up t2 %s %d %d %d 1", sc.ty, sc.a1, sc.a2, sc.a3),
					"newlink a up", "src a 1000", fmt.Sprintf("adv %d", 100*MS), "src a 10", fmt.Sprintf("adv %d", 300*MS)}
				switch a {
				case "upd1":
					ops = append(ops, fmt.Sprintf("upd t1 %s %d %d %d 1", f.ty, f.a1, f.a2, f.a3))
				case "del1":
					ops = append(ops, "del t1")
				case "upd2":
					ops = append(ops, fmt.Sprintf("upd t2 %s %d %d %d 1", sc.ty, sc.a1, sc.a2, sc.a3))
				case "del2":
					ops = append(ops, "del t2")
				case "add3":
					ops = append(ops, "add up t3 latency 1 0 0 1")
				case "reset":
					ops = append(ops, "reset")
				}
				// (long enough for a call that had to wait for a hand-over to have returned: the
				// next chunk must not arrive at the very moment the stub is restarted)
				ops = append(ops, fmt.Sprintf("adv %d", 2000*MS), "src a 10", "srceof a", "adv 30000000000", "adv 600000000000")
				out = append(out, ops)
			}
		}
		// the same with a receiver that does not accept: the last stage is blocked on the sink
		for _, a := range []string{"upd1", "del1", "add3"} {
			ops := []string{fmt.Sprintf("add up t1 %s %d %d %d 1", f.ty, f.a1, f.a2, f.a3), "newlink a up", "sink a 0",
				"src a 100", "src a 10", fmt.Sprintf("adv %d", 150*MS)}
			switch a {
			case "upd1":
				ops = append(ops, fmt.Sprintf("upd t1 %s %d %d %d 1", f.ty, f.a1, f.a2, f.a3))
			case "del1":
				ops = append(ops, "del t1")
			case "add3":
				ops = append(ops, "add up t3 latency 1 0 0 1")
			}
			ops = append(ops, "sink a 1", fmt.Sprintf("adv %d", 200*MS), "src a 10", "srceof a", "adv 30000000000", "adv 600000000000")
			out = append(out, ops)
		}
	}
	// limit_data: part of the budget used, then the limit is updated (raised, same, lowered),
	// another toxic is reconfigured, more data follows
	for _, n2 := range []int{12, 10, 8, 3} {
		out = append(out, []string{"add up t1 limit_data 10 0 0 1", "newlink a up", "src a 6", fmt.Sprintf("adv %d", MS),
			fmt.Sprintf("upd t1 limit_data %d 0 0 1", n2), "src a 10", fmt.Sprintf("adv %d", MS), "src a 10", "adv 30000000000"})
	}
	out = append(out, []string{"add up t1 limit_data 10 0 0 1", "add up t2 latency 5 0 0 1", "newlink a up", "src a 6", fmt.Sprintf("adv %d", 10*MS),
		"upd t2 latency 1 0 0 1", "src a 3", fmt.Sprintf("adv %d", 10*MS), "del t2", "src a 10", "adv 30000000000"})
	// timeout behind a stage that holds data: the timeout toxic is removed (or everything is
	// reset) while a chunk sent during the timeout is still held in front of it
	for _, T := range []int{0, 60000} {
		for _, a := range []string{"del t2", "reset", "del t1"} {
			for _, f := range []tx{{"latency", 500, 0, 0}, {"bandwidth", 1, 0, 0}, {"slicer", 1, 0, 50000}} {
				out = append(out, []string{fmt.Sprintf("add up t1 %s %d %d %d 1", f.ty, f.a1, f.a2, f.a3), fmt.Sprintf("add up t2 timeout %d 0 0 1", T),
					"newlink a up", "src a 4", fmt.Sprintf("adv %d", 900*MS), "src a 4", fmt.Sprintf("adv %d", 100*MS), a,
					fmt.Sprintf("adv %d", 2000*MS), "src a 4", "adv 30000000000"})
			}
		}
	}
	// a timer-held stage whose input has ended, then reconfigured (the close must still arrive,
	// once, after the full delay; nothing may be left behind)
	for _, a := range []string{"upd t1 slow_close 1000 0 0 1", "add up t3 latency 0 0 0 1", "del t1", "reset"} {
		out = append(out, []string{"add up t1 slow_close 1000 0 0 1", "newlink a up", "src a 5", fmt.Sprintf("adv %d", MS), "srceof a",
			fmt.Sprintf("adv %d", 200*MS), a, fmt.Sprintf("adv %d", 500*MS), "adv 30000000000"})
	}
	// many toxics in one direction (more than there are toxic types), then a new connection
	{
		var ops []string
		for k := 1; k <= 10; k++ {
			ops = append(ops, fmt.Sprintf("add up m%d latency 0 0 0 1", k))
		}
		ops = append(ops, "newlink a up", "src a 10", "adv 1000000", "srceof a", "adv 30000000000")
		out = append(out, ops)
	}
	// limit_data in front of latency: the cut piece is still delayed
	out = append(out, []string{"add up t1 limit_data 60 0 0 1", "add up t2 latency 400 0 0 1", "newlink a up", "src a 100",
		fmt.Sprintf("adv %d", 100*MS), fmt.Sprintf("adv %d", 1000*MS), "adv 30000000000"})
	out = append(out, []string{"add up t1 limit_data 150 0 0 1", "add up t2 latency 400 0 0 1", "newlink a up", "src a 100",
		fmt.Sprintf("adv %d", 200*MS), "src a 100", fmt.Sprintf("adv %d", 100*MS), fmt.Sprintf("adv %d", 1000*MS), "adv 30000000000"})
	// two connections under one timeout toxic, traffic on the first after the second started
	out = append(out, []string{"add up t1 timeout 1000 0 0 1", "newlink a up", fmt.Sprintf("adv %d", 500*MS), "newlink b up", "src a 5",
		fmt.Sprintf("adv %d", 600*MS), fmt.Sprintf("adv %d", 1000*MS), fmt.Sprintf("adv %d", 3000*MS)})
	out = append(out, []string{"add up t1 timeout 1000 0 0 1", "newlink a up", fmt.Sprintf("adv %d", 500*MS), "newlink b up", "src a 5",
		fmt.Sprintf("adv %d", 100*MS), "srceof b", fmt.Sprintf("adv %d", 600*MS), fmt.Sprintf("adv %d", 3000*MS)})
	// a slicer updated to a smaller bound after it has sliced data
	out = append(out, []string{"add up t1 slicer 1000 100 0 1", "newlink a up", "src a 2500", "src a 2500", fmt.Sprintf("adv %d", 10*MS),
		"upd t1 slicer 10 2 0 1", fmt.Sprintf("adv %d", MS), "src a 1000", fmt.Sprintf("adv %d", 100*MS), "adv 30000000000"})
	// a backlog in a buffered toxic that is removed: every piece gets its own five seconds
	{
		ops := []string{"allowblock", "add up t1 latency 3000 0 0 1", "add up t2 bandwidth 1 0 0 1", "newlink a up"}
		for k := 0; k < 16; k++ {
			ops = append(ops, "src a 500")
		}
		ops = append(ops, fmt.Sprintf("adv %d", 100*MS), "del t1", fmt.Sprintf("adv %d", 12000*MS), "src a 5", "srceof a", "adv 30000000000", "adv 600000000000")
		out = append(out, ops)
	}
	// a toxic updated after the link's source has ended, with data still held in it
	out = append(out, []string{"add up t1 latency 4000 0 0 1", "newlink a up", "src a 5", fmt.Sprintf("adv %d", MS), "srceof a", fmt.Sprintf("adv %d", 300*MS),
		"upd t1 latency 0 0 0 1", fmt.Sprintf("adv %d", 1500*MS), "adv 30000000000"})
	// a rejected update while a chunk sleeps in the toxic / while its timer runs
	out = append(out, []string{"add up t1 latency 1500 0 0 1", "newlink a up", "src a 5", fmt.Sprintf("adv %d", 200*MS), "updbad t1", fmt.Sprintf("adv %d", 100*MS),
		fmt.Sprintf("adv %d", 2000*MS), "adv 30000000000"})
	out = append(out, []string{"add up t1 timeout 1000 0 0 1", "newlink a up", "src a 5", fmt.Sprintf("adv %d", 700*MS), "updbad t1", fmt.Sprintf("adv %d", 400*MS),
		fmt.Sprintf("adv %d", 2000*MS), "adv 30000000000"})
	// timeout 0: the connection must still end when the sender does
	out = append(out, []string{"add up t1 timeout 0 0 0 1", "newlink a up", "src a 5", fmt.Sprintf("adv %d", MS), "srceof a", fmt.Sprintf("adv %d", 1000*MS), "adv 30000000000"})
	// bandwidth instalments in front of latency: every instalment is still delayed
	out = append(out, []string{"add up t1 bandwidth 1 0 0 1", "add up t2 latency 1500 0 0 1", "newlink a up", "src a 500", fmt.Sprintf("adv %d", 600*MS),
		fmt.Sprintf("adv %d", 2000*MS), "adv 30000000000"})
	// two connections through one slicer: the second's packet reaches the toxic between two pieces of
	// the first's (state that belongs to a packet must not be shared between connections)
	for _, sz := range [][2]int{{40, 25}, {64, 33}, {30, 30}} {
		out = append(out, []string{"add up t1 slicer 10 0 100000 1", "newlink a up", "newlink b up", fmt.Sprintf("src a %d", sz[0]), fmt.Sprintf("adv %d", 50*MS),
			fmt.Sprintf("src b %d", sz[1]), fmt.Sprintf("adv %d", 2000*MS), "srceof a", "srceof b", "adv 30000000000"})
	}
	// limit_data: the close belongs to the first data at or beyond the limit - not to the start of the
	// toxic (limit 0, nothing sent yet) and not to an update that lowers the limit below what has passed
	out = append(out, []string{"add up t1 limit_data 0 0 0 1", "newlink a up", fmt.Sprintf("adv %d", 300*MS), "src a 5", fmt.Sprintf("adv %d", MS), "adv 30000000000"})
	out = append(out, []string{"add up t1 limit_data 100 0 0 1", "newlink a up", "src a 10", fmt.Sprintf("adv %d", MS), "upd t1 limit_data 5 0 0 1",
		fmt.Sprintf("adv %d", 300*MS), "src a 5", fmt.Sprintf("adv %d", MS), "adv 30000000000"})
	out = append(out, []string{"newlink a up", "src a 10", fmt.Sprintf("adv %d", MS), "add up t1 limit_data 0 0 0 1", fmt.Sprintf("adv %d", 300*MS), "src a 5",
		fmt.Sprintf("adv %d", MS), "adv 30000000000"})
	// toxicity lowered to 0 (raised to 1) on a live connection: the toxic stops (starts) applying to it
	out = append(out, []string{"add up t1 latency 400 0 0 1", "newlink a up", "src a 5", fmt.Sprintf("adv %d", 1000*MS), "upd t1 latency 400 0 0 0",
		fmt.Sprintf("adv %d", 10*MS), "src a 5", fmt.Sprintf("adv %d", 2000*MS), "srceof a", "adv 30000000000"})
	out = append(out, []string{"add up t1 latency 400 0 0 0", "newlink a up", "src a 5", fmt.Sprintf("adv %d", 1000*MS), "upd t1 latency 400 0 0 1",
		fmt.Sprintf("adv %d", 10*MS), "src a 5", fmt.Sprintf("adv %d", 2000*MS), "srceof a", "adv 30000000000"})
	// a latency toxic with another toxic behind it; the other one is removed; later data is still delayed
	for _, x := range []string{"noop 0 0 0", "slicer 64 0 1000", "latency 50 0 0", "bandwidth 100 0 0"} {
		out = append(out, []string{"add up t1 latency 400 0 0 1", "add up t2 " + x + " 1", "newlink a up", "src a 5", fmt.Sprintf("adv %d", 1000*MS), "del t2",
			fmt.Sprintf("adv %d", 100*MS), "src a 5", fmt.Sprintf("adv %d", 100*MS), "src a 5", fmt.Sprintf("adv %d", 2000*MS), "srceof a", "adv 30000000000"})
	}
	// a slicer interrupted between two pieces while the stage behind it takes nothing for more than
	// five seconds: the rest of the packet is still handed on (an update waits, it does not give up)
	out = append(out, []string{"allowblock", "add up t1 slicer 7000 0 100000 1", "add up t2 bandwidth 1 0 0 1", "newlink a up", "src a 28000", fmt.Sprintf("adv %d", 300*MS),
		"upd t1 slicer 7000 0 100000 1", fmt.Sprintf("adv %d", 12000*MS), "srceof a", "adv 60000000000", "adv 600000000000"})
	// a toxic whose stub has closed itself (limit reached) is updated while a slow_close behind it keeps
	// the link alive, and the sender goes on: the update must not restart anything on the closed stub
	out = append(out, []string{"add up t1 limit_data 10 0 0 1", "add up t2 slow_close 4000 0 0 1", "newlink a up", "src a 10", fmt.Sprintf("adv %d", 10*MS),
		"upd t1 limit_data 100000 0 0 1", fmt.Sprintf("adv %d", 10*MS), "src a 10", fmt.Sprintf("adv %d", 100*MS), "src a 10", fmt.Sprintf("adv %d", 5000*MS), "adv 30000000000"})
	// C14: independence of the per-connection decisions, and their frequency for small toxicities
	out = append(out, []string{"indep 40"})
	return out
}

type tgen struct {
	ty  string
	gen func(r *rng.R) (int64, int64, int64)
}

var preserving = []tgen{
	{"noop", func(r *rng.R) (int64, int64, int64) { return 0, 0, 0 }},
	{"latency", func(r *rng.R) (int64, int64, int64) { return int64(r.Pick(0, 1, 50, 100, 1000)), 0, 0 }},
	{"bandwidth", func(r *rng.R) (int64, int64, int64) { return int64(r.Pick(1, 2, 10, 1000)), 0, 0 }},
	{"slicer", func(r *rng.R) (int64, int64, int64) {
		return int64(r.Pick(1, 2, 5, 64)), 0, int64(r.Pick(1, 7, 1000, 50000))
	}},
	{"slow_close", func(r *rng.R) (int64, int64, int64) { return int64(r.Pick(0, 100, 2000)), 0, 0 }},
}

var lossy = []tgen{
	{"timeout", func(r *rng.R) (int64, int64, int64) { return int64(r.Pick(0, 100, 3000)), 0, 0 }},
	{"limit_data", func(r *rng.R) (int64, int64, int64) { return int64(r.Pick(0, 1, 5, 20, 100)), 0, 0 }},
}

func advance(r *rng.R) int64 {
	return []int64{0, 1, MS, 50 * MS, 100 * MS, 100*MS - 1, 1000 * MS, 5000 * MS, 5000*MS + 1, 20000 * MS}[r.Intn(10)]
}

// Episode generates one structured episode. mode: "preserving" uses only data-preserving
// toxics (C01/C02 completeness), "all" adds timeout and limit_data.
func Episode(r *rng.R, mode string) []string {
	var ops []string
	pool := preserving
	if mode == "all" {
		pool = append(append([]tgen{}, preserving...), lossy...)
	}
	tnames := []string{"t1", "t2", "t3", "t4", "t5"}
	lnames := []string{"a"}
	dirs := map[string]string{"a": []string{"up", "down"}[r.Intn(2)]}
	// the generator's own view of which toxics exist (it assumes its API calls succeed; the
	// model rejects the ones that are not enabled and the harness then skips them)
	present := map[string]tgen{}
	var order []string
	absent := func() string {
		for k := 0; k < 8; k++ {
			n := tnames[r.Intn(len(tnames))]
			if _, ok := present[n]; !ok {
				return n
			}
		}
		return tnames[r.Intn(len(tnames))]
	}
	existing := func() string {
		if len(order) == 0 || r.Chance(1, 10) {
			return tnames[r.Intn(len(tnames))]
		}
		return order[r.Intn(len(order))]
	}
	addOp := func(d string) string {
		g := pool[r.Intn(len(pool))]
		a1, a2, a3 := g.gen(r)
		tox := "1"
		if r.Chance(1, 8) {
			tox = "0"
		}
		n := absent()
		if _, ok := present[n]; !ok {
			present[n] = g
			order = append(order, n)
		}
		return fmt.Sprintf("add %s %s %s %d %d %d %s", d, n, g.ty, a1, a2, a3, tox)
	}
	remove := func(n string) {
		delete(present, n)
		for i, x := range order {
			if x == n {
				order = append(order[:i], order[i+1:]...)
				break
			}
		}
	}
	pre := r.Intn(3)
	for i := 0; i < pre; i++ {
		d := []string{"up", "down"}[r.Intn(2)]
		if r.Chance(2, 3) {
			d = dirs["a"]
		}
		ops = append(ops, addOp(d))
	}
	ops = append(ops, "newlink a "+dirs["a"])
	n := 6 + r.Intn(30)
	for i := 0; i < n; i++ {
		ln := lnames[r.Intn(len(lnames))]
		if r.Chance(1, 4) {
			// strike: a big chunk, a short advance that leaves it held inside the chain
			// (asleep in latency, between two bandwidth instalments or slicer pieces, queued),
			// then a reconfiguration right away
			ops = append(ops, fmt.Sprintf("src %s %d", ln, r.Pick(64, 150, 250, 350, 1000, 2500)))
			if r.Chance(1, 2) {
				ops = append(ops, fmt.Sprintf("src %s %d", ln, r.Pick(1, 64, 250)))
			}
			ops = append(ops, fmt.Sprintf("adv %d", []int64{0, 1, MS, 7 * MS, 50 * MS, 100 * MS, 150 * MS, 250 * MS, 1000 * MS}[r.Intn(9)]))
			switch r.Intn(4) {
			case 0:
				ops = append(ops, addOp(dirs[ln]))
			case 1:
				nme := existing()
				ops = append(ops, "del "+nme)
				remove(nme)
			case 2:
				nme := existing()
				g, ok := present[nme]
				if !ok {
					g = pool[r.Intn(len(pool))]
				}
				a1, a2, a3 := g.gen(r)
				ops = append(ops, fmt.Sprintf("upd %s %s %d %d %d %s", nme, g.ty, a1, a2, a3, []string{"1", "1", "0"}[r.Intn(3)]))
			default:
				ops = append(ops, "reset")
				present = map[string]tgen{}
				order = nil
			}
			continue
		}
		switch x := r.Intn(24); {
		case x < 7:
			ops = append(ops, fmt.Sprintf("src %s %d", ln, r.Pick(1, 1, 2, 3, 5, 8, 10, 64, 201, 1000)))
		case x < 11:
			ops = append(ops, fmt.Sprintf("adv %d", advance(r)))
		case x < 14:
			d := []string{"up", "down"}[r.Intn(2)]
			if r.Chance(3, 4) {
				d = dirs[ln]
			}
			ops = append(ops, addOp(d))
		case x < 17:
			nme := existing()
			ops = append(ops, "del "+nme)
			remove(nme)
		case x < 19:
			nme := existing()
			g, ok := present[nme]
			if !ok {
				g = pool[r.Intn(len(pool))]
			}
			a1, a2, a3 := g.gen(r)
			ops = append(ops, fmt.Sprintf("upd %s %s %d %d %d %s", nme, g.ty, a1, a2, a3, []string{"1", "1", "0"}[r.Intn(3)]))
		case x == 19:
			ops = append(ops, "reset")
			present = map[string]tgen{}
			order = nil
		case x == 20:
			ops = append(ops, fmt.Sprintf("sink %s %d", ln, r.Intn(2)))
		case x == 21 && len(lnames) < 3:
			nn := []string{"b", "c"}[len(lnames)-1]
			dirs[nn] = []string{"up", "down"}[r.Intn(2)]
			if r.Chance(2, 3) {
				dirs[nn] = dirs["a"]
			}
			lnames = append(lnames, nn)
			ops = append(ops, "newlink "+nn+" "+dirs[nn])
		case x == 22 && r.Chance(1, 3):
			ops = append(ops, "srceof "+ln)
		default:
			ops = append(ops, fmt.Sprintf("adv %d", advance(r)))
		}
	}
	for _, ln := range lnames {
		ops = append(ops, "sink "+ln+" 1")
	}
	ops = append(ops, "adv 30000000000")
	// probe: the same traffic through the oldest link and through a link started now
	ops = append(ops, "adv 600000000000", "newlink z "+dirs["a"], "mark")
	for _, n := range []int{5, 64, 201} {
		ops = append(ops, fmt.Sprintf("src a %d", n), fmt.Sprintf("src z %d", n), "adv 7000000")
	}
	ops = append(ops, "adv 900000000000", "probecheck a z")
	return ops
}

func Sweep(e *Engine, tier string, seed uint64, mode string, res *report.Result) {
	res.Rule = "E3: structured random episodes on a real ToxicCollection: 1-3 links (both directions), chains built before and after links start, source chunks of 1-1000 bytes, add/update/remove/reset of toxics (re-used names, middle removals) at quiescent points and while chunks are held by latency/bandwidth/slicer stages or blocked on a non-accepting sink, sink back-pressure, source EOF, virtual-time advances around every timer. After every operation the API call state, the chain listing and, per link, the source reads, the sink writes (bytes, boundaries, virtual times) and the close are compared with the Lean link model. distinct_nontrivial counts distinct (operation, program-counter vector) paths."
	// wanted: a failure of one of the properties this run is about (or of none in particular)
	wanted := func(f *report.Failure) bool {
		return e.Props == "" || f.Property == "" || strings.Contains(","+e.Props+",", ","+f.Property+",")
	}
	// enough: three failures that concern this run, or a dozen of any kind
	enough := func() bool {
		n := 0
		for k := range res.Failures {
			if wanted(&res.Failures[k]) {
				n++
			}
		}
		return n >= 3 || len(res.Failures) >= 12
	}
	report1 := func(ops []string, f *report.Failure) {
		g := f
		if len(ops) == 0 || ops[0] != "allowblock" {
			// (a directed episode is reported as generated: shrinking it can take it outside the
			// proviso it was built to respect)
			g = run.Minimize(e, ops, f)
		}
		res.Failures = append(res.Failures, *g)
		if g.Kind == "disagreement" && !e.OracleOnly {
			e.OracleOnly = true
			sub := report.New("search", tier, seed)
			if f2 := e.Run(ops, sub); f2 != nil && f2.Kind == "oracle" {
				res.Failures = append(res.Failures, *run.Minimize(e, ops, f2))
			} else {
				Sweep(e, "quick", seed+13, mode, sub)
				// (an oracle failure of this run's property first, else any)
				picked := false
				for _, x := range sub.Failures {
					if x.Kind == "oracle" && wanted(&x) {
						res.Failures = append(res.Failures, x)
						picked = true
						break
					}
				}
				for _, x := range sub.Failures {
					if !picked && x.Kind == "oracle" {
						res.Failures = append(res.Failures, x)
						break
					}
				}
			}
			res.Notes = append(res.Notes, fmt.Sprintf("search after disagreement: %d oracle-only episodes", sub.Episodes))
			e.OracleOnly = false
		}
	}
	for _, c := range append(append([][]string{}, Corpus...), Directed()...) {
		if f := e.Run(c, res); f != nil {
			report1(c, f)
			if f.Kind == "disagreement" || enough() {
				return
			}
		}
	}
	r := rng.New(seed)
	n := 1200
	if tier == "thorough" {
		n = 25000
	}
	for i := 0; i < n; i++ {
		m := mode
		if m == "" {
			m = []string{"preserving", "all"}[i%2]
		}
		ops := Episode(r, m)
		if f := e.Run(ops, res); f != nil {
			report1(ops, f)
			if f.Kind == "disagreement" || enough() {
				return
			}
		}
	}
	_ = strings.Join
}
