package e5

import "encoding/json"

// jsonNumber: how encoding/json prints a float64 (what the client puts on the wire).
func jsonNumber(f float64) (string, error) {
	b, err := json.Marshal(f)
	return string(b), err
}
