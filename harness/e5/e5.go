// Package e5 is correspondence engine E5: the real Go client library (client/) and the real
// toxiproxy-cli binary (built from /repo/cmd/cli on every run) against a live in-process
// toxiproxy server behind a recording middleware, compared with the Lean client/CLI model
// (Model/Client.lean): the HTTP requests issued (method, path, JSON body), whether the call
// reported an error, and the server state afterwards.  Model-free oracles of C19.
//
// Abstract operations (= replay lines): the protocol lines of Toxi/Driver/E5.lean with
// attributes written as JSON text, e.g.
//
//	c create p1 127.0.0.1:$A u:1 | c save p1 127.0.0.1:$A u:1 0 1 | c add p1 t1 latency upstream 0.5 {"latency":5}
//	cli toggle p1 | cli tupd p1 t1 - {"jitter":7} | cli tadd p1 - latency 1 - {"latency":100}
package e5

import (
	"bytes"
	"encoding/hex"
	"encoding/json"
	"fmt"
	"io"
	"math"
	"math/big"
	"net/http"
	"net/http/httptest"
	"os"
	"os/exec"
	"reflect"
	"sort"
	"strconv"
	"strings"
	"sync"

	"github.com/rs/zerolog"

	toxiproxy "github.com/Shopify/toxiproxy/v2"
	tclient "github.com/Shopify/toxiproxy/v2/client"

	"verifharness/drv"
	"verifharness/e4"
	"verifharness/report"
	"verifharness/run"
)

type Engine struct {
	D          *drv.Driver
	E4         *e4.Engine
	CliBin     string
	CliVariant string
	OracleOnly bool
	CurFile    string
	seen       run.Seen
}

func New(d *drv.Driver, cliBin string) *Engine {
	return &Engine{D: d, E4: e4.New(d), CliBin: cliBin, CliVariant: "fixed", seen: run.Seen{}}
}

func (e *Engine) Close() { e.E4.Close() }

func (e *Engine) Name() string { return "E5" }

type recReq struct {
	method, path, body string
	status             int
}

type recorder struct {
	mu   sync.Mutex
	reqs []recReq
	next http.Handler
}

type statusWriter struct {
	http.ResponseWriter
	status int
}

func (w *statusWriter) WriteHeader(c int) { w.status = c; w.ResponseWriter.WriteHeader(c) }

func (r *recorder) ServeHTTP(w http.ResponseWriter, req *http.Request) {
	b, _ := io.ReadAll(req.Body)
	req.Body = io.NopCloser(bytes.NewReader(b))
	sw := &statusWriter{ResponseWriter: w, status: 200}
	r.next.ServeHTTP(sw, req)
	r.mu.Lock()
	r.reqs = append(r.reqs, recReq{req.Method, req.URL.Path, string(b), sw.status})
	r.mu.Unlock()
}

func (r *recorder) take() []recReq {
	r.mu.Lock()
	defer r.mu.Unlock()
	x := r.reqs
	r.reqs = nil
	return x
}

func fracOf(s string) string {
	if s == "-" {
		return "-"
	}
	x, err := strconv.ParseFloat(s, 32)
	if err != nil {
		return "-"
	}
	r := new(big.Rat).SetFloat64(x)
	return r.Num().String() + "/" + r.Denom().String()
}

func bodyTokens(body string) string {
	if strings.TrimSpace(body) == "" {
		return "-"
	}
	jv, ok := e4.ParseJV(body)
	if !ok {
		return "bad"
	}
	// a proxy body carries the client's copy of the toxic list under "toxics"; the server has
	// no such field (it is ignored): not part of the comparison
	if jv.Kind == "obj" {
		kept := jv.Obj[:0]
		for _, kv := range jv.Obj {
			if kv.K != "toxics" {
				kept = append(kept, kv)
			}
		}
		jv.Obj = kept
	}
	return strings.Join(jv.Tokens(), " ")
}

func attrsOf(text string) tclient.Attributes {
	jv, ok := e4.ParseJV(text)
	a := tclient.Attributes{}
	if !ok {
		return a
	}
	for _, kv := range jv.Obj {
		switch kv.V.Kind {
		case "num":
			f, _ := strconv.ParseFloat(kv.V.Lit, 64)
			a[kv.K] = f
		case "str":
			a[kv.K] = kv.V.S
		case "bool":
			a[kv.K] = kv.V.B
		}
	}
	return a
}

// sortedAttrTokens: the model gets the attributes with keys sorted, as Go marshals maps.
func sortedAttrTokens(text string) string {
	jv, ok := e4.ParseJV(text)
	if !ok {
		return "{ }"
	}
	sort.SliceStable(jv.Obj, func(i, j int) bool { return jv.Obj[i].K < jv.Obj[j].K })
	// numbers go through float64 in the client (Attributes is map[string]interface{})
	for i, kv := range jv.Obj {
		if kv.V.Kind == "num" {
			f, _ := strconv.ParseFloat(kv.V.Lit, 64)
			jv.Obj[i].V.Lit = strconv.FormatFloat(f, 'g', -1, 64)
			if b, err := jsonNumber(f); err == nil {
				jv.Obj[i].V.Lit = b
			}
		}
	}
	return strings.Join(jv.Tokens(), " ")
}

func (e *Engine) Run(ops []string, res *report.Result) *report.Failure {
	if e.CurFile != "" {
		os.WriteFile(e.CurFile, []byte(strings.Join(ops, "\n")+"\n"), 0o644)
	}
	e.D.Reset()
	e.E4.SendEnv()
	e.D.Ask("clivariant " + e.CliVariant)
	fail := func(at int, kind, prop, model, implS, what, sig string) *report.Failure {
		return &report.Failure{Kind: kind, Property: prop, Ops: append([]string(nil), ops...), At: at,
			Model: model, Impl: implS, What: what, Sig: sig}
	}
	srv := toxiproxy.NewServer(toxiproxy.NewMetricsContainer(nil), zerolog.Nop())
	rec := &recorder{next: srv.Routes()}
	ts := httptest.NewServer(rec)
	defer ts.Close()
	defer srv.Collection.Clear()
	cl := tclient.NewClient(ts.URL)
	snapshot := func() string {
		req := httptest.NewRequest("GET", "/proxies", nil)
		req.Header.Set("User-Agent", "verif-harness")
		rr := httptest.NewRecorder()
		srv.Routes().ServeHTTP(rr, req)
		return e4.CanonSnapshot(rr.Body.Bytes())
	}
	var shape []string
	handles := map[string]*tclient.Proxy{}
	var listed tclient.Toxics
	listedOK := false
	tsURL := ts.URL
	for i, op := range ops {
		curHandle := ""
		listedOK = false
		res.Ops++
		op = e.E4.Subst(op)
		w := strings.Fields(op)
		if len(w) < 2 {
			return nil
		}
		// "$S" inside a token stands for a space (names that need escaping in a URL path); the model
		// driver does the same substitution on the line it gets
		for k := range w {
			w[k] = strings.ReplaceAll(w[k], "$S", " ")
		}
		before := snapshot()
		// ---- build the model line and the real action
		line := ""
		var act func() (failed bool)
		attrText := func(from int) string {
			if len(w) > from {
				return strings.Join(w[from:], " ")
			}
			return "{}"
		}
		opt := func(s string) string {
			if s == "-" {
				return ""
			}
			return s
		}
		tox := func(s string) float32 {
			if s == "-" {
				return -1
			}
			f, _ := strconv.ParseFloat(s, 32)
			return float32(f)
		}
		switch w[0] {
		case "c":
			switch w[1] {
			case "create":
				line = op
				act = func() bool { _, err := cl.CreateProxy(w[2], w[3], w[4]); return err != nil }
			case "get":
				line = op
				act = func() bool { _, err := cl.Proxy(w[2]); return err != nil }
			case "save":
				line = op
				act = func() bool {
					// a proxy object as the caller holds it: fetched (created) or fresh
					var p *tclient.Proxy
					if w[6] == "1" {
						got, err := cl.Proxy(w[2])
						rec.take()
						if err != nil {
							// the model is asked about a created proxy that does not exist: skip
							return true
						}
						p = got
					} else {
						p = cl.NewProxy()
					}
					p.Name, p.Listen, p.Upstream, p.Enabled = w[2], w[3], w[4], w[5] == "1"
					return p.Save() != nil
				}
			case "delete":
				line = op
				act = func() bool { p := cl.NewProxy(); p.Name = w[2]; return p.Delete() != nil }
			case "toxics":
				line = op
				act = func() bool { p := cl.NewProxy(); p.Name = w[2]; _, err := p.Toxics(); return err != nil }
			case "proxies":
				line = op
				act = func() bool { _, err := cl.Proxies(); return err != nil }
			case "reset":
				line = op
				act = func() bool { return cl.ResetState() != nil }
			case "populate":
				// c populate (<name> <listen> <upstream> <enabled 0|1>)*
				if (len(w)-2)%4 == 0 {
					line = op
					var cfg []tclient.Proxy
					for k := 2; k+3 < len(w); k += 4 {
						cfg = append(cfg, tclient.Proxy{Name: w[k], Listen: w[k+1], Upstream: w[k+2], Enabled: w[k+3] == "1"})
					}
					act = func() bool { _, err := cl.Populate(cfg); return err != nil }
				}
			case "add", "cadd":
				at := attrText(7)
				line = fmt.Sprintf("c %s %s %s %s %s %s %s", w[1], enc(w[2]), enc(w[3]), w[4], w[5], fracOf(w[6]), sortedAttrTokens(at))
				act = func() bool {
					if w[1] == "add" {
						p := cl.NewProxy()
						p.Name = w[2]
						_, err := p.AddToxic(opt(w[3]), opt(w[4]), opt(w[5]), tox(w[6]), attrsOf(at))
						return err != nil
					}
					_, err := cl.AddToxic(&tclient.ToxicOptions{ProxyName: w[2], ToxicName: opt(w[3]), ToxicType: opt(w[4]), Stream: opt(w[5]), Toxicity: tox(w[6]), Attributes: attrsOf(at)})
					return err != nil
				}
			case "upd", "cupd":
				at := attrText(5)
				line = fmt.Sprintf("c %s %s %s %s %s", w[1], enc(w[2]), enc(w[3]), fracOf(w[4]), sortedAttrTokens(at))
				act = func() bool {
					if w[1] == "upd" {
						p := cl.NewProxy()
						p.Name = w[2]
						_, err := p.UpdateToxic(w[3], tox(w[4]), attrsOf(at))
						return err != nil
					}
					_, err := cl.UpdateToxic(&tclient.ToxicOptions{ProxyName: w[2], ToxicName: w[3], Toxicity: tox(w[4]), Attributes: attrsOf(at)})
					return err != nil
				}
			case "rm":
				line = op
				act = func() bool { p := cl.NewProxy(); p.Name = w[2]; return p.RemoveToxic(w[3]) != nil }
			case "crm":
				line = op
				act = func() bool {
					return cl.RemoveToxic(&tclient.ToxicOptions{ProxyName: w[2], ToxicName: w[3]}) != nil
				}
			}
		case "h":
			// a proxy handle the caller keeps across operations
			line = op
			hn := ""
			if len(w) > 2 {
				hn = w[2]
			}
			curHandle = hn
			switch w[1] {
			case "fetch":
				act = func() bool {
					p, err := cl.Proxy(w[3])
					if err == nil {
						handles[hn] = p
					}
					return err != nil
				}
			case "enable", "disable", "save", "delete":
				act = func() bool {
					p := handles[hn]
					if p == nil {
						return true
					}
					switch w[1] {
					case "enable":
						return p.Enable() != nil
					case "disable":
						return p.Disable() != nil
					case "save":
						return p.Save() != nil
					}
					return p.Delete() != nil
				}
			case "set":
				act = func() bool {
					if p := handles[hn]; p != nil {
						p.Listen, p.Upstream = w[3], w[4]
						return false
					}
					return true
				}
			}
		case "ht":
			// the toxics of a proxy, listed through a handle the caller has kept (and has listed
			// through before): for the model this is the listing by name
			if hp := handles[w[1]]; hp != nil {
				line = "c toxics " + enc(hp.Name)
				act = func() bool {
					ts, err := hp.Toxics()
					listed, listedOK = ts, err == nil
					return err != nil
				}
			} else {
				continue
			}
		case "cli":
			var argv []string
			switch w[1] {
			case "list":
				line, argv = op, []string{"list"}
			case "inspect":
				line, argv = op, []string{"inspect", w[2]}
			case "create":
				line, argv = op, []string{"create", "--listen", w[3], "-u", w[4], w[2]}
			case "toggle":
				line, argv = op, []string{"toggle", w[2]}
			case "delete":
				line, argv = op, []string{"delete", w[2]}
			case "tadd":
				at := attrText(7)
				line = fmt.Sprintf("cli tadd %s %s %s %s %s %s", enc(w[2]), enc(w[3]), w[4], w[5], fracOf(w[6]), sortedAttrTokens(at))
				argv = []string{"toxic", "add"}
				if w[3] != "-" {
					argv = append(argv, "--toxicName", w[3])
				}
				if w[4] != "-" {
					argv = append(argv, "-t", w[4])
				}
				if w[5] == "1" {
					argv = append(argv, "--upstream")
				}
				if w[6] != "-" {
					argv = append(argv, "--toxicity", w[6])
				}
				argv = append(argv, cliAttrs(at)...)
				argv = append(argv, w[2])
			case "tupd":
				at := attrText(5)
				line = fmt.Sprintf("cli tupd %s %s %s %s", enc(w[2]), enc(w[3]), fracOf(w[4]), sortedAttrTokens(at))
				argv = []string{"toxic", "update"}
				if w[3] != "-" {
					argv = append(argv, "-n", w[3])
				}
				if w[4] != "-" {
					argv = append(argv, "--tox", w[4])
				}
				argv = append(argv, cliAttrs(at)...)
				argv = append(argv, w[2])
			case "trm":
				line = op
				argv = []string{"toxic", "remove"}
				if w[3] != "-" {
					argv = append(argv, "-n", w[3])
				}
				argv = append(argv, w[2])
			}
			if argv != nil {
				act = func() bool {
					cmd := exec.Command(e.CliBin, argv...)
					cmd.Env = append(os.Environ(), "TOXIPROXY_URL="+ts.URL)
					out, err := cmd.CombinedOutput()
					_ = out
					return err != nil
				}
			}
		}
		if act == nil {
			return nil
		}
		line = e.E4.Subst(line)
		model := e.D.Ask(line)
		if strings.HasPrefix(model, "bad-op") {
			return fail(i, "disagreement", "", model, line, "driver rejected the operation", "e5:driver")
		}
		rec.take()
		failed := act()
		reqs := rec.take()
		after := snapshot()
		var rs []string
		lastStatus := 0
		for _, r := range reqs {
			rs = append(rs, fmt.Sprintf("%s %s %s", r.method, r.path, bodyTokens(r.body)))
			lastStatus = r.status
		}
		b2 := "0"
		if failed {
			b2 = "1"
		}
		got := fmt.Sprintf("failed=%s n=%d ; %s | %s", b2, len(reqs), strings.Join(rs, " ; "), after)
		if w[0] == "h" {
			got += " H " + handleStr(handles[curHandle])
			if of := handleOracle(i, fail, w, handles[curHandle], before, after, failed); of != nil {
				return of
			}
		}
		if w[0] == "ht" && listedOK {
			// what the client reads back is the server's state: the list it returned is the one
			// the server has now - nothing left over from what the handle held before
			if hp := handles[w[1]]; hp != nil {
				if srvL, cliL, ok := sameToxics(tsURL, hp.Name, listed); !ok {
					return fail(i, "oracle", "C19", srvL, cliL, "Proxy.Toxics() on a handle returned a list that differs from the server's (attributes or toxics the server does not have)", "e5:C19:toxics-read-back-differs")
				}
			}
		}
		res.Count("op:" + w[0] + " " + w[1])
		res.Count(fmt.Sprintf("last-status:%d", lastStatus))
		// ---- model-free oracles of C19
		if len(reqs) > 0 && (lastStatus < 200 || lastStatus >= 300) && !failed {
			return fail(i, "oracle", "C19", "error", "success", fmt.Sprintf("the server answered %d but the client/CLI reported success", lastStatus), "e5:C19:error-swallowed")
		}
		if of := keptOracle(i, fail, w, before, after, failed); of != nil {
			return of
		}
		// a by-name read of a proxy the server has reports it (whatever characters the name has)
		if failed && ((w[0] == "c" && (w[1] == "get" || w[1] == "toxics") && len(w) > 2 && e4.ProxyEntry(before, w[2]) != "") ||
			(w[0] == "h" && w[1] == "fetch" && len(w) > 3 && e4.ProxyEntry(before, w[3]) != "")) {
			return fail(i, "oracle", "C19", "the proxy", "error", "a client read of a proxy that the server has failed (the request did not address it)", "e5:C19:existing-proxy-not-found")
		}
		if strings.HasPrefix(model, "nondet ") {
			res.Count("episode:stopped-at-map-order-nondeterminism")
			break
		}
		if got != model && !e.OracleOnly {
			return fail(i, "disagreement", "", model, got, "requests issued / result / server state differ", "e5:obs")
		}
		shape = append(shape, fmt.Sprintf("%s-%s-%d", w[0], w[1], lastStatus))
	}
	res.Episodes++
	if e.seen.Add(strings.Join(shape, ">")) {
		res.Distinct++
		res.AddSample(map[string]any{"ops": ops, "outcome": strings.Join(shape, " > ")}, 6)
	}
	return nil
}

// sameToxics compares a list the client returned with the server's own answer (fetched without
// the client), both through the same canonical JSON form.
func sameToxics(url, name string, got tclient.Toxics) (string, string, bool) {
	resp, err := http.Get(url + "/proxies/" + name + "/toxics")
	if err != nil {
		return "", "", true
	}
	defer resp.Body.Close()
	if resp.StatusCode != 200 {
		return "", "", true
	}
	var a, b any
	raw, _ := io.ReadAll(resp.Body)
	if json.Unmarshal(raw, &a) != nil {
		return "", "", true
	}
	mine, _ := json.Marshal(got)
	if json.Unmarshal(mine, &b) != nil {
		return "", "", true
	}
	ca, _ := json.Marshal(a)
	cb, _ := json.Marshal(b)
	return string(ca), string(cb), string(ca) == string(cb)
}

// enc writes a name as one token of the model's line protocol (a space as $S).
func enc(s string) string { return strings.ReplaceAll(s, " ", "$S") }

func cliAttrs(text string) []string {
	jv, ok := e4.ParseJV(text)
	var out []string
	if !ok {
		return out
	}
	for _, kv := range jv.Obj {
		v := kv.V.S
		if kv.V.Kind == "num" {
			v = kv.V.Lit
		}
		out = append(out, "-a", kv.K+"="+v)
	}
	return out
}

func hexOrDash(x string) string {
	if x == "" {
		return "-"
	}
	return hex.EncodeToString([]byte(x))
}

func handleStr(p *tclient.Proxy) string {
	if p == nil {
		return "-"
	}
	b := func(x bool) string {
		if x {
			return "1"
		}
		return "0"
	}
	created := reflect.ValueOf(p).Elem().FieldByName("created").Bool()
	return fmt.Sprintf("%s|%s|%s|%s|%s", hexOrDash(p.Name), hexOrDash(p.Listen), hexOrDash(p.Upstream), b(p.Enabled), b(created))
}

// handleOracle (C19): Enable / Disable / Delete on a proxy handle that report success have
// had that effect on the server — whatever the handle believed before; and they fail when
// the proxy does not exist.
func handleOracle(i int, fail func(int, string, string, string, string, string, string) *report.Failure, w []string, h *tclient.Proxy, before, after string, failed bool) *report.Failure {
	if h == nil || failed {
		return nil
	}
	field := func(snap string, k int) string {
		f := strings.SplitN(e4.ProxyEntry(snap, h.Name), "|", 5)
		if len(f) == 5 {
			return f[k]
		}
		return ""
	}
	if w[1] == "enable" || w[1] == "disable" || w[1] == "save" {
		// what the handle reads back is the server's state: a successful Save (Enable and
		// Disable are Saves) leaves the handle showing the proxy as the server now has it
		if e4.ProxyEntry(after, h.Name) != "" {
			en := "0"
			if h.Enabled {
				en = "1"
			}
			if field(after, 1) != h.Listen || field(after, 2) != h.Upstream || field(after, 3) != en {
				return fail(i, "oracle", "C19", "listen="+field(after, 1)+" upstream="+field(after, 2)+" enabled="+field(after, 3),
					"listen="+h.Listen+" upstream="+h.Upstream+" enabled="+en,
					"after a successful Proxy."+strings.Title(w[1])+"() the handle does not show the proxy as the server has it", "e5:C19:handle-stale-after-save")
			}
		}
	}
	switch w[1] {
	case "enable", "disable":
		want := "1"
		if w[1] == "disable" {
			want = "0"
		}
		if got := field(after, 3); got != want {
			return fail(i, "oracle", "C19", "enabled="+want, "enabled="+got+" (\"\" = no such proxy)",
				"Proxy."+strings.Title(w[1])+"() reported success but the server's proxy is not in that state", "e5:C19:handle-"+w[1]+"-no-effect")
		}
	case "save":
	case "delete":
		if e4.ProxyEntry(after, h.Name) != "" {
			return fail(i, "oracle", "C19", "deleted", "still there", "Proxy.Delete() reported success but the proxy still exists", "e5:C19:handle-delete-no-effect")
		}
	}
	return nil
}

// ratOf parses the snapshot's "n/d" rendering of a toxicity.
func ratOf(s string) (float64, error) {
	n, d, ok := strings.Cut(s, "/")
	if !ok {
		return strconv.ParseFloat(s, 64)
	}
	a, err := strconv.ParseFloat(n, 64)
	if err != nil {
		return 0, err
	}
	b, err := strconv.ParseFloat(d, 64)
	if err != nil || b == 0 {
		return 0, fmt.Errorf("bad rational %q", s)
	}
	return a / b, nil
}

// keptOracle: settings the caller does not specify keep their server-side value.
func keptOracle(i int, fail func(int, string, string, string, string, string, string) *report.Failure, w []string, before, after string, failed bool) *report.Failure {
	if failed {
		return nil
	}
	toxOf := func(snap, proxy, toxic string) string {
		pe := e4.ProxyEntry(snap, proxy)
		k := strings.Index(pe, "T("+toxic+"|")
		if k < 0 {
			return ""
		}
		f := strings.Split(pe[k:], "|")
		if len(f) < 4 {
			return ""
		}
		return f[3]
	}
	// the attributes the caller gives as whole numbers are the attributes the toxic has afterwards
	// (what the equivalent HTTP request would store), however large
	if attrsAt := map[string]int{"c add": 7, "c cadd": 7, "cli tadd": 7, "c upd": 5, "c cupd": 5, "cli tupd": 5}[w[0]+" "+w[1]]; attrsAt > 0 && len(w) > attrsAt && w[3] != "-" {
		pe := e4.ProxyEntry(after, w[2])
		if k := strings.Index(pe, "T("+w[3]+"|"); k >= 0 {
			ent := pe[k:]
			if e := strings.Index(ent, ")"); e >= 0 {
				ent = ent[:e]
			}
			if jv, ok := e4.ParseJV(w[attrsAt]); ok && jv.Kind == "obj" {
				seen := map[string]int{}
				for _, kv := range jv.Obj {
					seen[strings.ToLower(kv.K)]++
				}
				for _, kv := range jv.Obj {
					lit := kv.V.Lit
					if kv.V.Kind != "num" || strings.ContainsAny(lit, ".eE-") || seen[strings.ToLower(kv.K)] != 1 || kv.K != strings.ToLower(kv.K) {
						continue
					}
					if !strings.Contains(ent, "|"+kv.K+"=") && !strings.Contains(ent, ","+kv.K+"=") {
						continue // not an attribute of this toxic type
					}
					if !strings.Contains(ent+",", kv.K+"="+lit+",") {
						return fail(i, "oracle", "C19", kv.K+"="+lit, ent, "the caller gave attribute "+kv.K+"="+lit+", the call reported success, but the toxic has another value", "e5:C19:attribute-not-as-given")
					}
				}
			}
		}
	}
	switch {
	case (w[0] == "cli" && w[1] == "tupd" && w[4] == "-") || (w[0] == "c" && (w[1] == "upd" || w[1] == "cupd") && w[4] == "-"):
		b, a := toxOf(before, w[2], w[3]), toxOf(after, w[2], w[3])
		if b != "" && a != b {
			return fail(i, "oracle", "C19", b, a, "a toxic update that does not specify a toxicity changed the toxicity from "+b+" to "+a, "e5:C19:toxicity-not-kept")
		}
	case (w[0] == "cli" && w[1] == "tupd") || (w[0] == "c" && (w[1] == "upd" || w[1] == "cupd")):
		// a toxicity that the caller does give is the toxicity the toxic has afterwards (what the
		// equivalent HTTP request would do), whatever its value - 0 included
		b, a := toxOf(before, w[2], w[3]), toxOf(after, w[2], w[3])
		want, err1 := strconv.ParseFloat(w[4], 64)
		got, err2 := ratOf(a)
		if b != "" && a != "" && err1 == nil && err2 == nil && math.Abs(want-got) > 1e-6 {
			return fail(i, "oracle", "C19", "toxicity "+w[4], "toxicity "+a, "a toxic update that specifies toxicity "+w[4]+" reported success but the toxic's toxicity is "+a+" (before: "+b+")", "e5:C19:toxicity-not-applied")
		}
	case w[0] == "cli" && w[1] == "toggle":
		b, a := e4.ProxyEntry(before, w[2]), e4.ProxyEntry(after, w[2])
		fb, fa := strings.SplitN(b, "|", 5), strings.SplitN(a, "|", 5)
		if len(fb) == 5 && len(fa) == 5 {
			// (enabling a stopped proxy re-spells its listen address as the bound address)
			if (fb[3] == "1" && fb[1] != fa[1]) || fb[2] != fa[2] || fb[4] != fa[4] {
				return fail(i, "oracle", "C19", b, a, "toggle changed more than the enabled flag", "e5:C19:toggle-changed-other-fields")
			}
			if fb[3] == fa[3] {
				return fail(i, "oracle", "C19", b, a, "toggle did not flip the enabled flag", "e5:C19:toggle-no-flip")
			}
		}
	}
	return nil
}
