package e5

import (
	"fmt"

	"verifharness/report"
	"verifharness/rng"
	"verifharness/run"
)

// Corpus: regression witnesses, run first.
var Corpus = [][]string{
	// a handle whose snapshot is stale: Enable/Disable must still be sent
	{"c create p1 127.0.0.1:$A u:1", "h fetch h1 p1", "h fetch h2 p1", "h disable h1", "h enable h2", "h disable h1", "c delete p1", "h enable h2"},
	// a handle saved with another spelling of the address, or another address: it must read back
	// what the server made of it, and a later Enable/Disable must not move the proxy
	{"c create p1 127.0.0.1:$A u:1", "h fetch h1 p1", "h set h1 localhost:$A u:1", "h save h1", "h disable h1", "h enable h1", "c get p1"},
	{"c create p1 127.0.0.1:$A u:1", "h fetch h1 p1", "h set h1 :$B u:2", "h save h1", "h save h1", "h disable h1", "h enable h1"},
	{"c create p1 127.0.0.1:$A u:1", "h fetch h1 p1", "h disable h1", "h set h1 localhost:$B u:2", "h enable h1", "c get p1"},
	// attribute values beyond float32's integer range, through the CLI and through the client
	{"c create p1 127.0.0.1:$A u:1", `cli tadd p1 t1 limit_data 0 - {"bytes":2147483647}`, `cli tupd p1 t1 - {"bytes":5000000001}`, "c toxics p1",
		`c add p1 t2 latency upstream - {"latency":16777217}`, `cli tupd p1 t2 - {"latency":20000001,"jitter":123456789}`, "c toxics p1"},
	// a handle that has listed the toxics before: after the toxics changed (another type at the same
	// position) the next listing through it shows the server's list, nothing of the old one
	{"c create p1 127.0.0.1:$A u:1", `c add p1 t1 latency upstream - {"latency":100,"jitter":5}`, "h fetch h1 p1", "ht h1", "c rm p1 t1",
		`c add p1 t2 timeout upstream - {"timeout":500}`, "ht h1", `c add p1 t3 limit_data downstream - {"bytes":100}`, "c rm p1 t2", "ht h1"},
	// names that need escaping in a URL path (a space; a plus beside it): every by-name operation
	// addresses the proxy / toxic of exactly that name
	{"c create p$S4 127.0.0.1:$A u:1", "c create p+4 127.0.0.1:$B u:2", "c get p$S4", "c get p+4", `c add p$S4 t$S1 latency upstream - {"latency":5}`, "c toxics p$S4", "c toxics p+4",
		`c upd p$S4 t$S1 - {"latency":7}`, "c rm p$S4 t$S1", "h fetch h1 p$S4", "h disable h1", "c get p+4", "c delete p$S4", "c proxies"},
	// Client.Populate: entries as the caller holds them (enabled false included), twice, then a differing one
	{"c populate p1 127.0.0.1:$A u:1 1 p2 127.0.0.1:$B u:2 0", "c populate p1 127.0.0.1:$A u:1 1 p2 127.0.0.1:$B u:2 0", "c proxies",
		"c populate p1 127.0.0.1:$A u:2 0", "c get p1", "c populate p3 noport u:1 1", "c proxies"},
	// C19 (fixed): `toxiproxy-cli toxic update` without --toxicity must keep the toxic's toxicity
	{"c create p1 127.0.0.1:$A u:1", `c add p1 t1 latency downstream 0.3 {"latency":5}`, `cli tupd p1 t1 - {"jitter":7}`, "c toxics p1"},
}

func pick(r *rng.R, xs ...string) string { return xs[r.Intn(len(xs))] }

func attrs(r *rng.R, ty string) string {
	switch ty {
	case "latency":
		return pick(r, `{"latency":5}`, `{"latency":100,"jitter":10}`, `{"jitter":7}`, `{}`, `{"latency":1.5}`, `{"latency":"x"}`, `{"latency":16777217}`, `{"latency":20000001,"jitter":123456789}`)
	case "timeout":
		return pick(r, `{"timeout":0}`, `{"timeout":500}`, `{}`)
	case "limit_data":
		return pick(r, `{"bytes":100}`, `{}`, `{"bytes":2147483647}`, `{"bytes":5000000001}`)
	case "slicer":
		return pick(r, `{"average_size":64,"size_variation":8,"delay":10}`, `{"delay":1}`)
	}
	return pick(r, `{}`, `{"latency":5}`, `{"rate":10}`)
}

func Episode(r *rng.R) []string {
	var ops []string
	pn := func() string { return pick(r, "p1", "p1", "p2", "p3", "p$S4", "p+4") }
	tn := func() string { return pick(r, "t1", "t1", "t2", "-") }
	ty := func() string { return pick(r, "latency", "latency", "timeout", "limit_data", "slicer", "bogus", "-") }
	tox := func() string { return pick(r, "-", "-", "0", "1", "0.5", "0.3") }
	listen := func() string {
		return pick(r, "127.0.0.1:$A", "127.0.0.1:$B", "localhost:$A", ":$B", "127.0.0.1:$C", "noport")
	}
	ops = append(ops, fmt.Sprintf("%s create p1 127.0.0.1:$A u:1", pick(r, "c", "cli")))
	n := 4 + r.Intn(20)
	for i := 0; i < n; i++ {
		if r.Chance(1, 6) {
			h := pick(r, "h1", "h1", "h2")
			switch r.Intn(9) {
			case 0, 1:
				ops = append(ops, fmt.Sprintf("h fetch %s %s", h, pn()))
			case 2, 3:
				ops = append(ops, "h enable "+h)
			case 4, 5:
				ops = append(ops, "h disable "+h)
			case 6:
				ops = append(ops, "h save "+h)
			case 7:
				ops = append(ops, fmt.Sprintf("h set %s %s %s", h, listen(), pick(r, "u:1", "u:2")))
			default:
				ops = append(ops, "h delete "+h)
			}
			if r.Chance(1, 2) {
				ops = append(ops, "ht "+h)
			}
			continue
		}
		if r.Chance(1, 12) {
			op := "c populate"
			for k := 0; k < 1+r.Intn(2); k++ {
				op += fmt.Sprintf(" %s %s %s %d", pn(), listen(), pick(r, "u:1", "u:2"), r.Intn(2))
			}
			ops = append(ops, op)
			continue
		}
		switch x := r.Intn(24); {
		case x < 2:
			ops = append(ops, fmt.Sprintf("%s create %s %s %s", pick(r, "c", "cli"), pn(), listen(), pick(r, "u:1", "u:2")))
		case x < 6:
			t := ty()
			st := pick(r, "-", "upstream", "downstream", "-")
			switch r.Intn(3) {
			case 0:
				ops = append(ops, fmt.Sprintf("c add %s %s %s %s %s %s", pn(), tn(), t, st, tox(), attrs(r, t)))
			case 1:
				ops = append(ops, fmt.Sprintf("c cadd %s %s %s %s %s %s", pn(), tn(), t, st, tox(), attrs(r, t)))
			default:
				ops = append(ops, fmt.Sprintf("cli tadd %s %s %s %d %s %s", pn(), tn(), t, r.Intn(2), tox(), attrs(r, t)))
			}
		case x < 11:
			nme := pick(r, "t1", "t1", "t2", "latency_downstream")
			switch r.Intn(3) {
			case 0:
				ops = append(ops, fmt.Sprintf("c upd %s %s %s %s", pn(), nme, tox(), attrs(r, "latency")))
			case 1:
				ops = append(ops, fmt.Sprintf("c cupd %s %s %s %s", pn(), nme, tox(), attrs(r, "latency")))
			default:
				ops = append(ops, fmt.Sprintf("cli tupd %s %s %s %s", pn(), nme, tox(), attrs(r, "latency")))
			}
		case x < 13:
			ops = append(ops, fmt.Sprintf("%s %s %s", pick(r, "c rm", "c crm", "cli trm"), pn(), pick(r, "t1", "t2", "latency_downstream")))
		case x < 16:
			ops = append(ops, "cli toggle "+pn())
		case x < 18:
			ops = append(ops, fmt.Sprintf("c save %s %s %s %d 1", pn(), listen(), pick(r, "u:1", "u:2"), r.Intn(2)))
		case x == 18:
			ops = append(ops, fmt.Sprintf("c save %s %s %s %d 0", pn(), listen(), pick(r, "u:1", "u:2"), r.Intn(2)))
		case x == 19:
			ops = append(ops, fmt.Sprintf("%s %s", pick(r, "c delete", "cli delete"), pn()))
		case x == 20:
			ops = append(ops, pick(r, "c proxies", "cli list", "c reset"))
		case x == 21:
			ops = append(ops, fmt.Sprintf("%s %s", pick(r, "c get", "cli inspect", "c toxics"), pn()))
		default:
			ops = append(ops, "cli toggle "+pn())
		}
	}
	return ops
}

func Sweep(e *Engine, tier string, seed uint64, res *report.Result) {
	res.Rule = "E5: random sequences of client-library calls (CreateProxy, Proxy, Save/Enable/Disable, Delete, Toxics, Proxy.AddToxic/UpdateToxic/RemoveToxic, Client.AddToxic/UpdateToxic/RemoveToxic, Proxies, ResetState) and toxiproxy-cli commands (create, toggle, delete, list, inspect, toxic add/update/remove with long and short flags) against a live server with a recording middleware; names that exist and that do not, toxicity given or not, attributes valid and invalid, listen addresses in several spellings incl. busy and invalid ones. Compared after every call: the HTTP requests issued (method, path, JSON body), error reported or not, server state. distinct_nontrivial counts distinct (operation, final status) sequences."
	report1 := func(ops []string, f *report.Failure) {
		g := run.Minimize(e, ops, f)
		res.Failures = append(res.Failures, *g)
		if g.Kind == "disagreement" && !e.OracleOnly {
			e.OracleOnly = true
			sub := report.New("search", tier, seed)
			if f2 := e.Run(ops, sub); f2 != nil && f2.Kind == "oracle" {
				res.Failures = append(res.Failures, *run.Minimize(e, ops, f2))
			} else {
				Sweep(e, "quick", seed+13, sub)
				for _, x := range sub.Failures {
					if x.Kind == "oracle" {
						res.Failures = append(res.Failures, x)
						break
					}
				}
			}
			e.OracleOnly = false
		}
	}
	for _, c := range Corpus {
		if f := e.Run(c, res); f != nil {
			report1(c, f)
			return
		}
	}
	r := rng.New(seed)
	n := 250
	if tier == "thorough" {
		n = 5000
	}
	for i := 0; i < n; i++ {
		ops := Episode(r)
		if f := e.Run(ops, res); f != nil {
			report1(ops, f)
			return
		}
	}
}
