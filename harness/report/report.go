// Package report defines what an engine run hands back to bin/check.
package report

import (
	"encoding/json"
	"os"
	"sort"
)

// Failure is one disagreement between model and implementation, or one failure of a
// property's direct oracle on the implementation (Kind = "oracle").
type Failure struct {
	Kind     string   `json:"kind"`     // "disagreement" | "oracle" | "hang" | "panic"
	Property string   `json:"property"` // property the oracle belongs to ("" for a disagreement)
	Ops      []string `json:"ops"`      // minimal abstract operation list that reproduces it
	At       int      `json:"at"`       // index of the failing operation
	Model    string   `json:"model"`    // what the model predicted
	Impl     string   `json:"impl"`     // what the implementation did
	What     string   `json:"what"`
	Sig      string   `json:"sig"` // stable signature used to match known findings
}

type Result struct {
	Engine      string         `json:"engine"`
	Tier        string         `json:"tier"`
	Seed        uint64         `json:"seed"`
	Episodes    int            `json:"episodes"`
	Ops         int            `json:"ops"`
	Distinct    int            `json:"distinct_nontrivial"`
	Rule        string         `json:"rule"`
	Exhaustive  bool           `json:"exhaustive"`
	Samples     []any          `json:"samples"`
	Dist        map[string]int `json:"distribution"`
	Failures    []Failure      `json:"failures"`
	Notes       []string       `json:"notes"`
	WallS       float64        `json:"wall_s"`
	DriverLines int            `json:"driver_lines"`
}

func New(engine, tier string, seed uint64) *Result {
	return &Result{Engine: engine, Tier: tier, Seed: seed, Dist: map[string]int{}}
}

func (r *Result) Count(key string) { r.Dist[key]++ }

func (r *Result) AddSample(s any, max int) {
	if len(r.Samples) < max {
		r.Samples = append(r.Samples, s)
	}
}

func (r *Result) Write(path string) error {
	sort.SliceStable(r.Failures, func(i, j int) bool { return len(r.Failures[i].Ops) < len(r.Failures[j].Ops) })
	b, err := json.MarshalIndent(r, "", " ")
	if err != nil {
		return err
	}
	return os.WriteFile(path, b, 0o644)
}
