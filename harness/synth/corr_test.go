// Package synth hosts the engines that need testing/synctest (a virtual, punctual clock
// and detection of "every goroutine is durably blocked"): they are compiled as a test
// binary (go test -c) and configured through the environment by bin/check.
package synth

import (
	"bufio"
	"fmt"
	"github.com/rs/zerolog"
	"os"
	"runtime/debug"
	"strconv"
	"strings"
	"testing"
	"time"

	"verifharness/drv"
	"verifharness/e2"
	"verifharness/e3"
	"verifharness/report"
)

func TestCorr(t *testing.T) {
	engine := os.Getenv("CORR_ENGINE")
	if engine == "" {
		t.Skip("CORR_ENGINE not set")
	}
	tier := os.Getenv("CORR_TIER")
	zerolog.SetGlobalLevel(zerolog.Disabled) // the bandwidth toxic logs through the global logger
	seed, _ := strconv.ParseUint(os.Getenv("CORR_SEED"), 10, 64)
	out := os.Getenv("CORR_OUT")
	args := strings.Fields(os.Getenv("CORR_ARGS"))
	arg := func(name string) string {
		for i := 0; i+1 < len(args); i++ {
			if args[i] == name {
				return args[i+1]
			}
		}
		return ""
	}
	res := report.New(engine, tier, seed)
	t0 := time.Now()
	d, err := drv.Start(os.Getenv("CORR_DRIVER"), engine)
	if err != nil {
		t.Fatal(err)
	}
	defer d.Close()
	switch engine {
	case "e2":
		e := e2.New(d, t)
		e.CurFile = out + ".cur"
		e.Oracles = e2.OraclesFor(arg("-props"))
		if arg("-props") == "C07" {
			e.Wild = true
			debug.SetMaxStack(64 << 20) // an endless recursion dies after 64 MB, not 1 GB
		}
		if v := arg("-variant"); v != "" {
			e.Variant = v
		}
		if rp := arg("-replay"); rp != "" {
			if f := e.Run(readOps(rp), res); f != nil {
				res.Failures = append(res.Failures, *f)
			}
		} else {
			e2.Sweep(e, tier, seed, arg("-only"), res)
		}
		os.Remove(e.CurFile)
	case "e3":
		e := e3.New(d, t)
		e.CurFile = out + ".cur"
		e.Props = arg("-props")
		if rp := arg("-replay"); rp != "" {
			if f := e.Run(readOps(rp), res); f != nil {
				res.Failures = append(res.Failures, *f)
			}
		} else {
			e3.Sweep(e, tier, seed, arg("-mode"), res)
		}
		os.Remove(e.CurFile)
	default:
		t.Fatalf("unknown engine %q", engine)
	}
	res.DriverLines = d.Sent
	res.WallS = time.Since(t0).Seconds()
	if out != "" {
		if err := res.Write(out); err != nil {
			t.Fatal(err)
		}
	}
	fmt.Printf("%s: episodes=%d ops=%d distinct=%d failures=%d wall=%.1fs\n", engine, res.Episodes, res.Ops, res.Distinct, len(res.Failures), res.WallS)
	for _, f := range res.Failures {
		fmt.Printf("FAIL kind=%s property=%s at=%d\n  ops=%s\n  model=%s\n  impl=%s\n  what=%s\n", f.Kind, f.Property, f.At, strings.Join(f.Ops, " ; "), f.Model, f.Impl, f.What)
	}
}

func readOps(path string) []string {
	f, err := os.Open(path)
	if err != nil {
		panic(err)
	}
	defer f.Close()
	var ops []string
	sc := bufio.NewScanner(f)
	sc.Buffer(make([]byte, 1<<20), 1<<26)
	for sc.Scan() {
		l := strings.TrimSpace(sc.Text())
		if l == "" || strings.HasPrefix(l, "#") {
			continue
		}
		ops = append(ops, l)
	}
	return ops
}
