// Package ports hands out TCP ports for the engines' listeners from below the kernel's
// ephemeral range: a port that a proxy is to bind again later (re-enable, re-address, a second
// create of the same port) must not meanwhile be taken as the source port of one of the harness's
// own outgoing connections - that made a bind fail once in 1 600 episodes of E5's thorough tier.
package ports

import (
	"net"
	"os"
	"strconv"
	"sync"
)

var (
	mu   sync.Mutex
	next = 20000 + (os.Getpid()*37)%9000
)

// Free returns a port in [20000, 32000) on which both 127.0.0.1:p and :p can be bound right now.
func Free() int {
	mu.Lock()
	defer mu.Unlock()
	for tries := 0; tries < 12000; tries++ {
		p := next
		next++
		if next >= 32000 {
			next = 20000
		}
		l1, err := net.Listen("tcp", "127.0.0.1:"+strconv.Itoa(p))
		if err != nil {
			continue
		}
		l1.Close()
		l2, err := net.Listen("tcp", ":"+strconv.Itoa(p))
		if err != nil {
			continue
		}
		l2.Close()
		return p
	}
	panic("ports: no free port below the ephemeral range")
}
