// Package rng is the single source of randomness of the harness: splitmix64 seeded from
// VERIF_SEED, so every generated case replays exactly.
package rng

type R struct{ s uint64 }

func New(seed uint64) *R {
	// scramble the seed so that consecutive seeds give unrelated streams
	z := seed + 0x1234567
	z = (z ^ (z >> 30)) * 0xBF58476D1CE4E5B9
	z = (z ^ (z >> 27)) * 0x94D049BB133111EB
	z ^= z >> 31
	return &R{s: z*0x2545F4914F6CDD1D + 0x9E3779B97F4A7C15}
}

func (r *R) U64() uint64 {
	r.s += 0x9E3779B97F4A7C15
	z := r.s
	z = (z ^ (z >> 30)) * 0xBF58476D1CE4E5B9
	z = (z ^ (z >> 27)) * 0x94D049BB133111EB
	return z ^ (z >> 31)
}

// Intn returns a value in [0,n).
func (r *R) Intn(n int) int {
	if n <= 0 {
		return 0
	}
	return int(r.U64() % uint64(n))
}

func (r *R) Bool() bool { return r.U64()&1 == 1 }

// Chance returns true with probability num/den.
func (r *R) Chance(num, den int) bool { return r.Intn(den) < num }

// Pick returns one of the given ints.
func (r *R) Pick(xs ...int) int { return xs[r.Intn(len(xs))] }

// Fork derives an independent stream.
func (r *R) Fork() *R { return New(r.U64()) }

// PickS picks one of the strings.
func (r *R) PickS(xs ...string) string { return xs[r.Intn(len(xs))] }
